//! Key-set / value generators: exhaustive small universes, boundary-directed shapes, random bulk, corpora.
use crate::ctx::Tier;
use crate::rng::Rng;

pub type Kv = Vec<(Vec<u8>, u64)>;

pub struct Case {
    pub kv: Kv,
    /// all values are zero and the case may be built through set front ends
    pub set: bool,
    pub family: &'static str,
    pub index: usize,
}

impl Case {
    pub fn fp(&self) -> u64 {
        let mut h = crate::rng::fnv(self.family.as_bytes());
        for (k, v) in &self.kv {
            h = crate::rng::fnv_add(h, k);
            h = crate::rng::fnv_u64(h, *v);
        }
        h
    }
    pub fn describe(&self) -> crate::json::J {
        use crate::json::J;
        J::obj(vec![
            ("family", J::s(self.family)),
            ("index", J::U(self.index as u64)),
            ("nkeys", J::U(self.kv.len() as u64)),
            ("first", J::A(self.kv.iter().take(6).map(|(k, v)| J::A(vec![J::bytes(k), J::U(*v)])).collect())),
        ])
    }
}

/// all strings over `alpha` of length <= maxlen, sorted lexicographically (includes "")
pub fn universe(alpha: &[u8], maxlen: usize) -> Vec<Vec<u8>> {
    let mut out: Vec<Vec<u8>> = vec![vec![]];
    let mut layer: Vec<Vec<u8>> = vec![vec![]];
    for _ in 0..maxlen {
        let mut next = vec![];
        for s in &layer {
            for &a in alpha {
                let mut t = s.clone();
                t.push(a);
                next.push(t);
            }
        }
        out.extend(next.iter().cloned());
        layer = next;
    }
    out.sort();
    out
}

pub fn subset(univ: &[Vec<u8>], mask: u64) -> Vec<Vec<u8>> {
    univ.iter().enumerate().filter(|(i, _)| mask >> i & 1 == 1).map(|(_, k)| k.clone()).collect()
}

/// boundary palette: 0,1, 2^(8k)-1, 2^(8k), 2^(8k)+1 for k=1..7, u64::MAX-1, u64::MAX (sorted)
pub fn palette() -> Vec<u64> {
    let mut v = vec![0u64, 1];
    for k in 1..8u32 {
        let p = 1u64 << (8 * k);
        v.push(p - 1);
        v.push(p);
        v.push(p + 1);
    }
    v.push(u64::MAX - 1);
    v.push(u64::MAX);
    v
}

pub const NSTYLES: usize = 9;
/// value styles; style 0 = all zero (set-compatible)
pub fn assign(keys: Vec<Vec<u8>>, style: usize, rng: &mut Rng) -> Kv {
    let n = keys.len();
    let pal = palette();
    keys.into_iter()
        .enumerate()
        .map(|(i, k)| {
            let v = match style % NSTYLES {
                0 => 0,
                1 => i as u64,                                 // increasing small
                2 => pal[i % pal.len()],                       // palette cyclic
                3 => pal[pal.len() - 1 - (i % pal.len())],     // palette descending cyclic
                4 => (n - i) as u64 * 1000,                    // strictly decreasing (pushes outputs to finals)
                5 => rng.next(),                               // full range random
                6 => rng.below(5),                             // tiny random with many ties
                7 => u64::MAX - i as u64,                      // huge decreasing
                _ => k.len() as u64,                           // key length
            };
            (k, v)
        })
        .collect()
}

pub const FANOUTS: [usize; 11] = [0, 1, 2, 31, 32, 33, 63, 64, 65, 255, 256];

/// keys whose trie has a node with exactly `fanout` children at depth `depth` (0 = root)
pub fn fanout_keys(fanout: usize, depth: usize, with_final: bool, deep_children: bool, rng: &mut Rng) -> Vec<Vec<u8>> {
    let prefix: Vec<u8> = (0..depth).map(|i| [b'p', 0x00, 0xff][(i + rng.usize(3)) % 3]).collect();
    let mut bytes: Vec<u8> = (0..=255u8).collect();
    // choose which bytes: if fanout < 256 pick a random subset, always sorted
    if fanout < 256 {
        for i in 0..256 {
            let j = i + rng.usize(256 - i);
            bytes.swap(i, j);
        }
        bytes.truncate(fanout);
        bytes.sort();
    }
    let mut keys = vec![];
    if with_final || fanout == 0 {
        keys.push(prefix.clone());
    }
    for &b in &bytes {
        let mut k = prefix.clone();
        k.push(b);
        if deep_children && b % 3 == 0 {
            let mut k2 = k.clone();
            k2.push(b'x');
            if b % 2 == 0 {
                keys.push(k.clone());
            }
            keys.push(k2);
        } else {
            keys.push(k);
        }
    }
    keys.sort();
    keys.dedup();
    keys
}

pub fn random_keys(rng: &mut Rng, n: usize, alpha: &[u8], maxlen: usize) -> Vec<Vec<u8>> {
    let mut keys: Vec<Vec<u8>> = (0..n)
        .map(|_| {
            let l = rng.usize(maxlen + 1);
            rng.bytes(l, alpha)
        })
        .collect();
    keys.sort();
    keys.dedup();
    keys
}

pub fn alphabet(rng: &mut Rng) -> Vec<u8> {
    match rng.below(6) {
        0 => vec![b'a', b'b'],
        1 => (b'a'..=b'z').collect(),
        2 => (0..=255u8).collect(),
        3 => vec![0x00, 0x01, 0xfe, 0xff],
        4 => b"te/oasXYZ\x00\xff".to_vec(), // common + uncommon inputs mixed
        _ => (b'0'..=b'9').collect(),
    }
}

pub fn corpus(name: &str) -> Vec<Vec<u8>> {
    let path = format!("/repo/data/{}", name);
    let data = std::fs::read(&path).unwrap_or_default();
    let mut keys: Vec<Vec<u8>> = data.split(|&b| b == b'\n').filter(|l| !l.is_empty()).map(|l| l.to_vec()).collect();
    keys.sort();
    keys.dedup();
    keys
}

pub struct Family {
    pub name: &'static str,
    pub count: usize,
    pub make: Box<dyn Fn(usize) -> Case + Sync + Send>,
}

fn fam<F: Fn(usize, &mut Rng) -> (Vec<Vec<u8>>, usize) + Sync + Send + 'static>(name: &'static str, count: usize, seed: u64, f: F) -> Family {
    Family {
        name,
        count,
        make: Box::new(move |i| {
            let mut rng = Rng::new(seed, crate::rng::fnv(name.as_bytes()) ^ (i as u64).wrapping_mul(0x9E37));
            let (keys, style) = f(i, &mut rng);
            let kv = assign(keys, style, &mut rng);
            Case { set: style % NSTYLES == 0, kv, family: name, index: i }
        }),
    }
}

/// The shared structural pool (C01, C02, C09, C12, C15 ...). `scale` thins the exhaustive family
/// for checks that do expensive work per case (1 = everything).
pub fn pool(tier: Tier, seed: u64, thin: usize) -> Vec<Family> {
    let mut fams = vec![];
    // F1: all subsets of {a,b}^{<=3} x 3 value styles (styles rotate with the subset)
    let u_ab3 = universe(b"ab", 3);
    let n1 = 1usize << u_ab3.len();
    {
        let u = u_ab3.clone();
        let per = 3;
        fams.push(fam("ab3-subsets", n1 * per / thin.max(1), seed, move |i, _| {
            let i = i * thin.max(1);
            let mask = (i / per) as u64;
            let style = [[0, 0, 0], [2, 4, 1], [3, 5, 6]][i % per][mask as usize % 3];
            (subset(&u, mask), style)
        }));
    }
    if tier == Tier::Thorough {
        let u = universe(b"abc", 2);
        let n = 1usize << u.len();
        fams.push(fam("abc2-subsets", n * 5 / thin.max(1), seed, move |i, _| {
            let i = i * thin.max(1);
            let mask = (i / 5) as u64;
            (subset(&u, mask), [0, 2, 3, 4, 5][i % 5])
        }));
    }
    // F2: fan-out palette x depth x final x output shape x deep children
    {
        let styles = [0usize, 1, 4, 2, 3, 7];
        let count = FANOUTS.len() * 3 * 2 * styles.len() * 2;
        fams.push(fam("fanout", count, seed, move |i, rng| {
            let mut j = i;
            let fo = FANOUTS[j % FANOUTS.len()];
            j /= FANOUTS.len();
            let depth = j % 3;
            j /= 3;
            let fin = j % 2 == 1;
            j /= 2;
            let style = styles[j % styles.len()];
            j /= styles.len();
            let deep = j % 2 == 1;
            (fanout_keys(fo, depth, fin, deep, rng), style)
        }));
    }
    // F2a: the SAME wide fan (65..256 bytes) under several prefixes, with other nodes in between: the equal wide nodes meet in the
    // builder's cache - under the small hook geometries after other nodes have gone through the same cells
    {
        let count = 7 * 4 * 3;
        fams.push(fam("duplicated-wide-fans", count, seed, move |i, rng| {
            let fo = [33usize, 64, 65, 66, 100, 255, 256][i % 7];
            let nprefix = 2 + (i / 7) % 4;
            let style = [0usize, 1, 4][(i / 28) % 3];
            let mut bytes: Vec<u8> = (0..=255u8).collect();
            for a in 0..256 {
                let b = a + rng.usize(256 - a);
                bytes.swap(a, b);
            }
            bytes.truncate(fo);
            let mut keys: Vec<Vec<u8>> = vec![];
            for p in 0..nprefix {
                let prefix: Vec<u8> = vec![b'a' + p as u8 * 3, b'q'];
                for &b in &bytes {
                    keys.push([&prefix[..], &[b][..]].concat());
                }
                // a few unrelated keys between the fans
                keys.push(vec![b'a' + p as u8 * 3 + 1, b'x', b'y', p as u8]);
                keys.push(vec![b'a' + p as u8 * 3 + 1, b'x', b'z']);
            }
            keys.sort();
            keys.dedup();
            (keys, style)
        }));
    }
    // F2a': a fan of `fo` children that all lead to ONE shared suffix node, immediately followed by a sibling branch that
    // reaches the same suffix node through a single byte (or two): the suffix node is the last node written before the
    // fan's node, and the node written right after the fan's node points at it
    {
        let fos = [1usize, 2, 31, 32, 33, 40, 64, 65, 200, 256];
        let count = fos.len() * 3 * 3 * 2;
        fams.push(fam("fan-then-single-path-to-the-shared-suffix", count, seed, move |i, rng| {
            let fo = fos[i % fos.len()];
            let slen = 1 + (i / fos.len()) % 3;
            let style = [0usize, 8, 6][(i / (fos.len() * 3)) % 3];
            let two = (i / (fos.len() * 9)) % 2 == 1;
            let suffix: Vec<u8> = b"ste"[..slen].to_vec();
            let mut bytes: Vec<u8> = (0..=255u8).collect();
            for a in 0..256 {
                let b = a + rng.usize(256 - a);
                bytes.swap(a, b);
            }
            bytes.truncate(fo);
            let mut keys: Vec<Vec<u8>> = vec![];
            for &b in &bytes {
                keys.push([&b"p"[..], &[b][..], &suffix[..]].concat());
            }
            keys.push([if two { &b"qxy"[..] } else { &b"qx"[..] }, &suffix[..]].concat());
            if i % 4 == 3 {
                keys.push([&b"r"[..], &suffix[..]].concat());
            }
            keys.sort();
            keys.dedup();
            (keys, style)
        }));
    }
    // F2a'': rounds: every round holds the SAME few hundred pairwise different wide nodes (33..35 children each), followed by
    // thousands of unrelated keys that push them out of the builder's node cache before the next round meets them again
    fams.push(fam("recurring-wide-nodes-after-filler", 6, seed, move |i, rng| {
        let rounds = 2 + i % 3;
        let nwide = [100usize, 300][i / 3 % 2];
        let nfill = [2000usize, 6000][i % 2];
        let mut keys: Vec<Vec<u8>> = vec![];
        for round in 0..rounds as u8 {
            for j in 0..nwide {
                let start = (j % 200) as u8;
                let len = 33 + (j / 200) as u8;
                for x in start..start + len {
                    keys.push(vec![0x10 + round, 0x00, (j >> 8) as u8, j as u8, x]);
                }
            }
            for _ in 0..nfill {
                let mut k = vec![0x10 + round, 0x01];
                k.extend((0..10).map(|_| rng.next() as u8));
                keys.push(k);
            }
        }
        keys.sort();
        keys.dedup();
        (keys, [0usize, 6][i % 2])
    }));
    // F2b: grid of fan-out x output width: a node with `fo` transitions whose outputs all need exactly `w` bytes
    // (w = 0 means a set), with and without a final output of that width
    {
        let fos = [33usize, 64, 147, 171, 205, 255, 256];
        let count = fos.len() * 9 * 2;
        fams.push(Family {
            name: "fanout-x-width",
            count,
            make: Box::new(move |i| {
                let mut rng = Rng::new(seed, 0xF0_7 + i as u64);
                let fo = fos[i % fos.len()];
                let w = (i / fos.len()) % 9;
                let fin = i / (fos.len() * 9) == 1;
                let keys = fanout_keys(fo, 1, fin, false, &mut rng);
                let n = keys.len() as u64;
                let kv: Kv = keys
                    .into_iter()
                    .enumerate()
                    .map(|(j, k)| {
                        let v = if w == 0 {
                            0
                        } else {
                            // values of width w whose pairwise differences also need w bytes: outputs stay w bytes wide
                            // after the common prefix moved up; descending when final so that the final output is large
                            let base = if w == 8 { 1u64 << 56 } else { 1u64 << (8 * (w as u32 - 1)) };
                            let top = if w == 8 { u64::MAX } else { (1u64 << (8 * w as u32)) - 1 };
                            let span = top - base;
                            let step = span / (n + 1);
                            let jj = if fin { n - j as u64 } else { j as u64 + 1 };
                            base + step * jj
                        };
                        (k, v)
                    })
                    .collect();
                Case { set: w == 0, kv, family: "fanout-x-width", index: i }
            }),
        });
    }
    // F2c: values SOLVED so that two different nodes get the same 64-bit FNV-1a digest in the builder's node cache
    // (a workload aimed at the cache: the mirror of the hash below only steers the input, it is never an oracle).
    // Shape: {p1+x: 0, p1+y: o2, p2+x: d, p2+y: 0}: node(p1) = [(x,0,leaf),(y,o2,leaf)], node(p2) = [(x,d,leaf),(y,0,leaf)].
    fams.push(Family {
        name: "cache-digest-collision",
        count: 96,
        make: Box::new(move |i| {
            let mut rng = Rng::new(seed, 0xF_C011 + i as u64);
            const P: u64 = 1099511628211;
            let step = |h: u64, v: u64| (h ^ v).wrapping_mul(P);
            // i >= 48: the two colliding nodes are WIDE: `lead` common children come before x and `trail` after y
            // (equal in both nodes, values = small numbers, the first one 0 so that nothing moves up to the parent)
            let (lead, trail) = if i < 48 { (0usize, 0usize) } else { [(40usize, 0usize), (70, 3), (30, 60), (64, 0), (130, 100), (0, 33)][(i / 12) % 6] };
            let x = lead as u8 + 1 + rng.below(if i < 48 { 120 } else { 5 }) as u8;
            let y = x + 1 + rng.below(if i < 48 { 100 } else { 5 }) as u8;
            let d = match i % 3 {
                0 => 1 + rng.below(1000),
                1 => rng.next() >> 8,
                _ => rng.next(),
            };
            // digest of a non-final node without final output, as the cache computes it
            let mut h0 = step(step(14695981039346656037, 0), 0);
            for c in 0..lead {
                h0 = step(step(step(h0, c as u64), (c % 7) as u64), 0);
            }
            // node(p1): after (x, out 0, addr 0) and input y
            let a = step(step(step(step(h0, x as u64), 0), 0), y as u64);
            // node(p2): after (x, out d, addr 0) and input y
            let b = step(step(step(step(h0, x as u64), d), 0), y as u64);
            let o2 = a ^ b; // then (a ^ o2) == (b ^ 0): the remaining steps are identical
            let (p1, p2): (Vec<u8>, Vec<u8>) = match (i / 3) % 4 {
                0 => (b"a".to_vec(), b"b".to_vec()),
                1 => (b"k".to_vec(), b"kz".to_vec()),
                2 => (vec![0x00], vec![0xff, 0x01]),
                _ => (b"pre".to_vec(), b"prf".to_vec()),
            };
            let mut kv: Kv = vec![];
            for (p, vx, vy) in [(&p1, 0u64, o2), (&p2, d, 0u64)].iter() {
                for c in 0..lead {
                    let mut k = (*p).clone();
                    k.push(c as u8);
                    kv.push((k, (c % 7) as u64));
                }
                let mut k = (*p).clone();
                k.push(x);
                kv.push((k, *vx));
                let mut k = (*p).clone();
                k.push(y);
                kv.push((k, *vy));
                for c in 0..trail {
                    let mut k = (*p).clone();
                    k.push(255 - c as u8);
                    kv.push((k, (c % 5) as u64 * 3));
                }
            }
            kv.sort();
            Case { set: false, kv, family: "cache-digest-collision", index: i }
        }),
    });
    // F3: single bytes: each byte alone, all 256 together, as second byte
    fams.push(fam("single-bytes", 256 * 2 + 4, seed, |i, rng| {
        if i < 256 {
            (vec![vec![i as u8]], [0, 2, 5][i % 3])
        } else if i < 512 {
            let b = (i - 256) as u8;
            (vec![vec![b'k'], vec![b'k', b]], [1, 3, 4][i % 3])
        } else {
            let keys: Vec<Vec<u8>> = match i - 512 {
                0 => (0..=255u8).map(|b| vec![b]).collect(),
                1 => (0..=255u8).map(|b| vec![b'k', b]).collect(),
                2 => {
                    let mut k: Vec<Vec<u8>> = vec![vec![]];
                    k.extend((0..=255u8).map(|b| vec![b]));
                    k
                }
                _ => (0..=255u8).flat_map(|b| vec![vec![b], vec![b, b]]).collect::<Vec<_>>(),
            };
            let mut keys = keys;
            keys.sort();
            (keys, [0, 1, 4, 5][rng.usize(4)])
        }
    }));
    // F4: long keys
    fams.push(fam("long-keys", 16, seed, |i, rng| {
        // around the code's initial capacities (16-byte key buffer, 64-entry stacks/slots) and the u8/u16 boundaries
        let lens = [1usize, 255, 256, 257, 4096, 70_000, 70_000, 1000, 15, 16, 17, 63, 64, 65, 127, 129];
        let l = lens[i % lens.len()];
        let alpha = alphabet(rng);
        let a = rng.bytes(l, &alpha);
        let mut b = a.clone();
        let cut = rng.usize(l.max(1));
        b.truncate(cut);
        b.push(0xff);
        let mut c = a.clone();
        c.push(b'z');
        let mut keys = vec![a, b, c];
        if i % 2 == 0 {
            keys.push(vec![]);
        }
        keys.sort();
        keys.dedup();
        (keys, [0, 4, 1, 5, 2, 3, 7, 6][i % 8])
    }));
    // F4c: one long key whose length sweeps so that the FILE length passes every residue next to the multiples of the block
    // sizes a writer might stage its output in (4 KiB .. 64 KiB, and twice 64 KiB): a single-key set of length L is L + 38 bytes
    {
        let blocks = [(4096usize, 1usize), (8192, 1), (16384, 1), (32768, 1), (65536, 1), (65536, 2)];
        let win = 29usize; // file lengths B*k-16 ..= B*k+12
        fams.push(fam("file-length-sweep", blocks.len() * win, seed, move |i, _| {
            let (b, k) = blocks[i / win];
            let l = b * k + (i % win) - 16 - 38;
            (vec![vec![b'a'; l]], [0, 0, 1][i % 3])
        }));
    }
    // F4b: two keys whose root needs 4-byte address deltas: one short key emitted first, then a 17 MB long key, so the
    // root (emitted last) points > 2^24 bytes back. Cheap way to reach delta width 4 without millions of keys.
    fams.push(fam("huge-delta", tier.pick(1, 2), seed, |i, rng| {
        let mut long = vec![b'b'];
        let n = (1usize << 24) + 4096 + rng.usize(1000);
        long.extend((0..n).map(|j| if j % 4093 == 0 { 0xffu8 } else { b'c' }));
        let keys = vec![vec![b'a', b'z'], long, vec![b'c']];
        (keys, [5usize, 0][i % 2])
    }));
    // F4c: dense product sets Sigma^L: far more keys than bytes in the file (maximal sharing)
    fams.push(fam("dense-product", 6, seed, |i, _| {
        let (sigma, l): (Vec<u8>, usize) = match i % 6 {
            0 => (b"ab".to_vec(), 8),
            1 => ((b'a'..b'a' + 16).collect(), 3),
            2 => (b"abcd".to_vec(), 6),
            3 => ((0..=255u8).collect(), 2),
            4 => (b"ab".to_vec(), 12),
            _ => (vec![0x00, 0xff], 10),
        };
        let mut keys: Vec<Vec<u8>> = vec![vec![]];
        for _ in 0..l {
            let mut next = Vec::with_capacity(keys.len() * sigma.len());
            for k in &keys {
                for &b in &sigma {
                    let mut t = k.clone();
                    t.push(b);
                    next.push(t);
                }
            }
            keys = next;
        }
        keys.sort();
        (keys, [0usize, 0, 0, 0, 1, 0][i % 6])
    }));
    // F5: corpora
    {
        let names: Vec<&'static str> = match tier {
            Tier::Quick => vec!["words-10000", "wiki-urls-10000"],
            Tier::Thorough => vec!["words-10000", "wiki-urls-10000", "words-100000"],
        };
        let styles = [0usize, 1, 8, 4, 2, 5];
        let nst = tier.pick(3, 6);
        let names2 = names.clone();
        fams.push(fam("corpus", names.len() * nst, seed, move |i, _| (corpus(names2[i / nst]), styles[i % nst])));
    }
    // F6: random maps
    {
        let count = tier.pick(2000, 60_000) / thin.max(1);
        fams.push(fam("random", count, seed, |i, rng| {
            let alpha = alphabet(rng);
            let n = match rng.below(4) {
                0 => rng.usize(6),
                1 => rng.usize(40),
                _ => rng.usize(300),
            };
            let ml = 1 + rng.usize(if alpha.len() <= 4 { 10 } else { 5 });
            (random_keys(rng, n, &alpha, ml), i % NSTYLES)
        }));
    }
    // F7: bodies large enough for 2 and 3 byte deltas (and 4 in thorough)
    {
        let sizes: Vec<usize> = match tier {
            Tier::Quick => vec![3_000, 30_000],
            Tier::Thorough => vec![3_000, 30_000, 300_000, 1_000_000, 3_000_000],
        };
        let n = sizes.len();
        fams.push(fam("bulk", n * 2, seed, move |i, rng| {
            let sz = sizes[i % n];
            let alpha: Vec<u8> = if i / n == 0 { (b'a'..=b'z').collect() } else { (0..=255u8).collect() };
            let kl = if sz >= 1_000_000 { 9 } else { 7 };
            (random_keys(rng, sz, &alpha, kl), if i / n == 0 { 5 } else { 1 })
        }));
    }
    fams
}

/// enumerate the cases of `fams` assigned to `shard` (round robin over a global running index)
pub fn for_shard(fams: &[Family], shard: usize, nshards: usize, mut f: impl FnMut(&Case)) {
    let mut g = 0usize;
    for fam in fams {
        for i in 0..fam.count {
            if g % nshards == shard {
                let case = (fam.make)(i);
                if (g / nshards) % 53 == 0 {
                    crate::build::history_noise(g);
                }
                f(&case);
            }
            g += 1;
        }
    }
}
