fn main(){}
