//! fstmiri: the part of C20 that runs under Miri (`cargo +nightly miri run --bin fstmiri -- shard nshards seed tier`).
//! Prints one line `MIRI-SHARD ...`; undefined behaviour makes Miri abort with a diagnostic instead.
#[path = "rng.rs"]
mod rng;
#[path = "untrusted.rs"]
mod untrusted;

use fst::automaton::{Automaton, Levenshtein, Str, Subsequence};
use fst::raw::{Builder, Fst, OpBuilder};
use fst::{IntoStreamer, Map, Set, Streamer};
use rng::Rng;
use std::panic::{catch_unwind, AssertUnwindSafe};

/// bounded traversal of possibly malformed data: a panic is allowed, undefined behaviour is not
fn traverse(img: &[u8], ops: &mut u64, panics: &mut u64) {
    let r = catch_unwind(AssertUnwindSafe(|| {
        let mut n = 0u64;
        if let Ok(f) = Fst::new(img) {
            let mut s = f.stream();
            let mut c = 0;
            while let Some(_) = s.next() {
                c += 1;
                if c >= 200 {
                    break;
                }
            }
            n += 1;
            for k in [&b""[..], b"a", b"ab", b"w\x05", b"te", b"\xff"].iter() {
                let _ = f.get(k);
                let _ = f.contains_key(k);
                n += 2;
            }
            let mut s = f.range().ge("a").lt("x").into_stream();
            let mut c = 0;
            while let Some(_) = s.next() {
                c += 1;
                if c >= 50 {
                    break;
                }
            }
            n += 1;
            let mut s = f.search(Subsequence::new("a")).into_stream();
            let mut c = 0;
            while let Some(_) = s.next() {
                c += 1;
                if c >= 50 {
                    break;
                }
            }
            n += 1;
            let _ = f.get_key(3);
            n += 1;
            let mut u = OpBuilder::new().add(&f).add(f.range().gt("a")).union();
            let mut c = 0;
            while let Some(_) = u.next() {
                c += 1;
                if c >= 50 {
                    break;
                }
            }
            n += 1;
        }
        n
    }));
    match r {
        Ok(n) => *ops += n,
        Err(_) => {
            *panics += 1;
            *ops += 1;
        }
    }
}

/// a miniature of every public operation kind on valid inputs
fn valid_ops(rng: &mut Rng, ops: &mut u64, with_lev: bool, default_cache: bool) {
    let mut keys: Vec<Vec<u8>> = (0..12)
        .map(|_| {
            let l = rng.usize(4);
            rng.bytes(l, b"ab\xc3\xa9")
        })
        .collect();
    keys.push("é".as_bytes().to_vec());
    keys.sort();
    keys.dedup();
    let mut b = if default_cache { Builder::memory() } else { Builder::verif_new_with_cache(Vec::new(), 0, 16, 2).unwrap() };
    for (i, k) in keys.iter().enumerate() {
        b.insert(k, i as u64 * 1000 + 1).unwrap();
    }
    let bytes = b.into_inner().unwrap();
    let f = Fst::new(&bytes[..]).unwrap();
    assert!(f.verify().is_ok());
    let got = f.stream().into_byte_vec();
    assert_eq!(got.len(), keys.len());
    for (i, k) in keys.iter().enumerate() {
        assert_eq!(f.get(k).map(|o| o.value()), Some(i as u64 * 1000 + 1));
        assert_eq!(f.get_key(i as u64 * 1000 + 1).as_ref(), Some(k));
    }
    let m = Map::new(bytes.clone()).unwrap();
    let s = Set::new(bytes.clone()).unwrap();
    let _ = m.range().ge("a").le("b").into_stream().into_byte_vec();
    let _ = m.search(Str::new("ab").starts_with().union(Subsequence::new("b")).complement()).into_stream().into_byte_vec();
    if !with_lev {
        *ops += 18 + 3 * keys.len() as u64;
    } else if let Ok(lev) = Levenshtein::new("aé", 1) {
        let _ = s.search(&lev).into_stream().into_bytes();
        let _ = m.search_with_state(&lev).into_stream().next();
    }
    let mut u = m.op().add(&m).add(m.range().gt("a")).intersection();
    while let Some(_) = u.next() {}
    let mut d = s.op().add(s.range().lt("b")).symmetric_difference();
    while let Some(_) = d.next() {}
    assert!(s.is_subset(&s) && !s.is_disjoint(&s) || s.is_empty());
    *ops += 20 + 3 * keys.len() as u64;
}

fn main() {
    let a: Vec<String> = std::env::args().collect();
    let shard: usize = a.get(1).and_then(|s| s.parse().ok()).unwrap_or(0);
    let nshards: usize = a.get(2).and_then(|s| s.parse().ok()).unwrap_or(1).max(1);
    let seed: u64 = a.get(3).and_then(|s| s.parse().ok()).unwrap_or(1);
    let tier = a.get(4).cloned().unwrap_or_else(|| "quick".into());
    let mut st = untrusted::Stats::default();
    let mut ops = 0u64;
    let mut trav_panics = 0u64;
    if tier == "probe" {
        untrusted::gate(&[3, 0, 0, 0, 0, 0, 0, 0], &mut st);
        println!("MIRI-SHARD probe ops=1 gate_panics={}", st.panics);
        return;
    }
    let thorough = tier == "thorough";
    let mut rng = Rng::new(seed, 0x3141 + shard as u64);
    // boundary images (a different slice of the sweep in every shard and for every seed)
    let nb = if thorough { 3000 } else { 300 };
    for i in 0..nb {
        let pick = rng.next() as usize;
        let l = [0usize, 7, 8, 16, 31, 32, 33, 35, 36, 37, 39, 40, 56, 64][(pick >> 3) % 14];
        let mut img = untrusted::boundary_image(l, pick % 7, (pick >> 8) % untrusted::FIELD_VALUES, (pick >> 16) % untrusted::FIELD_VALUES, i, &mut rng);
        if i % 3 == 0 {
            untrusted::fix_checksum(&mut img);
        }
        untrusted::gate(&img, &mut st);
        ops += 1;
    }
    // single-byte mutants and truncations of valid FSTs: gate + bounded traversal
    let fsts = untrusted::valid_fsts(&mut Rng::new(seed, 0xF57), 14, true);
    let nm = if thorough { 400 } else { 40 };
    for i in 0..nm {
        let f = &fsts[(shard + i * nshards) % fsts.len()];
        let mut img = f.clone();
        match i % 4 {
            0 => {}
            1 => {
                let cut = rng.usize(img.len() + 1);
                img.truncate(cut);
            }
            _ => {
                let p = rng.usize(img.len());
                img[p] ^= 1 << rng.below(8);
            }
        }
        untrusted::gate(&img, &mut st);
        ops += 1;
        traverse(&img, &mut ops, &mut trav_panics);
    }
    for round in 0..(if thorough { 12 } else { 2 }) {
        // one build with the default (20000-cell) cache per run is affordable under Miri, the rest use a small one
        valid_ops(&mut rng, &mut ops, thorough || shard % 4 == 1, shard == 0 && round == 0);
    }
    println!(
        "MIRI-SHARD shard={} ops={} gate_images={} gate_panics={} opened={} traversal_panics_allowed={}",
        shard, ops, st.images, st.panics, st.opened, trav_panics
    );
}
