//! Independent decoder of the fst on-disk format (versions 1..3), written from the format
//! description (comments in node.rs / build.rs), never calling the crate's reader.
//! The common-input table is part of the on-disk format and therefore pinned here as data.
use std::collections::BTreeMap;

pub const COMMON_INV: [u8; 63] = *b"te/oasripcnw.hlm-du012g=:bf3y5&_4v9678k%?xCDASFIBEjPTzRNM+LOqHG";

#[derive(Debug, Clone)]
pub struct RNode {
    /// address = offset of the state byte (last byte of the node)
    pub start: usize,
    /// offset of the first byte of the node
    pub end: usize,
    /// 0 = one-trans-next, 1 = one-trans, 2 = any-trans
    pub form: u8,
    pub is_final: bool,
    pub final_out: u64,
    /// (input, output, target address)
    pub trans: Vec<(u8, u64, usize)>,
    pub osize: usize,
    pub tsize: usize,
    pub has_index: bool,
    pub common: bool,
}

#[derive(Debug)]
pub struct Decoded {
    pub version: u64,
    pub ty: u64,
    pub len: u64,
    pub root: usize,
    pub checksum: Option<u32>,
    pub nodes: BTreeMap<usize, RNode>,
    pub body_end: usize,
}

fn u64le(b: &[u8]) -> u64 {
    let mut a = [0u8; 8];
    a.copy_from_slice(&b[..8]);
    u64::from_le_bytes(a)
}

fn unpack(b: &[u8], n: usize) -> Result<u64, String> {
    if n == 0 || n > 8 {
        return Err(format!("bad pack width {}", n));
    }
    if b.len() < n {
        return Err("short".into());
    }
    let mut v = 0u64;
    for i in 0..n {
        v |= (b[i] as u64) << (8 * i);
    }
    Ok(v)
}

pub fn parse_node(data: &[u8], version: u64, addr: usize) -> Result<RNode, String> {
    if addr >= data.len() {
        return Err(format!("addr {} out of bounds", addr));
    }
    let st = data[addr];
    let mut p = addr; // index of the lowest byte consumed so far
    macro_rules! take {
        ($n:expr) => {{
            let n = $n;
            if p < n {
                return Err("node underflows the file".into());
            }
            p -= n;
            &data[p..p + n]
        }};
    }
    match st >> 6 {
        0b11 => {
            let ci = (st & 0x3f) as usize;
            let inp = if ci == 0 { take!(1)[0] } else { COMMON_INV[ci - 1] };
            if p == 0 {
                return Err("one-trans-next node at offset 0".into());
            }
            Ok(RNode { start: addr, end: p, form: 0, is_final: false, final_out: 0, trans: vec![(inp, 0, p - 1)], osize: 0, tsize: 0, has_index: false, common: ci != 0 })
        }
        0b10 => {
            let ci = (st & 0x3f) as usize;
            let inp = if ci == 0 { take!(1)[0] } else { COMMON_INV[ci - 1] };
            let ps = take!(1)[0];
            let tsize = (ps >> 4) as usize;
            let osize = (ps & 15) as usize;
            let delta = unpack(take!(tsize), tsize)? as usize;
            let out = if osize == 0 { 0 } else { unpack(take!(osize), osize)? };
            let end = p;
            let tgt = if delta == 0 {
                0
            } else {
                if delta > end {
                    return Err("delta beyond start of file".into());
                }
                end - delta
            };
            Ok(RNode { start: addr, end, form: 1, is_final: false, final_out: 0, trans: vec![(inp, out, tgt)], osize, tsize, has_index: false, common: ci != 0 })
        }
        _ => {
            let is_final = st & 0x40 != 0;
            let mut n = (st & 0x3f) as usize;
            if n == 0 {
                n = take!(1)[0] as usize;
                if n == 1 {
                    n = 256;
                }
            }
            let ps = take!(1)[0];
            let tsize = (ps >> 4) as usize;
            let osize = (ps & 15) as usize;
            if osize > 8 || tsize > 8 {
                return Err("pack width > 8".into());
            }
            let has_index = version >= 2 && n > 32;
            let index: Option<Vec<u8>> = if has_index { Some(take!(256).to_vec()) } else { None };
            let inputs: Vec<u8> = take!(n).iter().rev().cloned().collect(); // stored reversed
            if n > 0 && tsize == 0 {
                return Err("transition width 0 with transitions".into());
            }
            let dbytes = take!(n * tsize).to_vec();
            let obytes = if osize > 0 { take!(n * osize).to_vec() } else { vec![] };
            let final_out = if is_final && osize > 0 { unpack(take!(osize), osize)? } else { 0 };
            let end = p;
            let mut trans = Vec::with_capacity(n);
            for i in 0..n {
                let slot = n - 1 - i;
                let delta = unpack(&dbytes[slot * tsize..], tsize)? as usize;
                let out = if osize > 0 { unpack(&obytes[slot * osize..], osize)? } else { 0 };
                let tgt = if delta == 0 {
                    0
                } else {
                    if delta > end {
                        return Err("delta beyond start of file".into());
                    }
                    end - delta
                };
                trans.push((inputs[i], out, tgt));
            }
            for w in trans.windows(2) {
                if w[0].0 >= w[1].0 {
                    return Err("inputs not strictly increasing".into());
                }
            }
            if let Some(ix) = index {
                let mut present = [false; 256];
                for (i, t) in trans.iter().enumerate() {
                    present[t.0 as usize] = true;
                    if ix[t.0 as usize] as usize != i {
                        return Err(format!("index maps byte {} to {} but it is transition {}", t.0, ix[t.0 as usize], i));
                    }
                }
                for b in 0..256usize {
                    if !present[b] && (ix[b] as usize) < n {
                        return Err(format!("index maps absent byte {} to transition {}", b, ix[b]));
                    }
                }
            }
            Ok(RNode { start: addr, end, form: 2, is_final, final_out, trans, osize, tsize, has_index, common: false })
        }
    }
}

pub fn decode(data: &[u8]) -> Result<Decoded, String> {
    if data.len() < 32 {
        return Err("too short".into());
    }
    let version = u64le(data);
    if version == 0 || version > 3 {
        return Err(format!("version {}", version));
    }
    let ty = u64le(&data[8..]);
    let (end, checksum) = if version >= 3 {
        if data.len() < 36 {
            return Err("too short for version 3".into());
        }
        let mut a = [0u8; 4];
        a.copy_from_slice(&data[data.len() - 4..]);
        (data.len() - 4, Some(u32::from_le_bytes(a)))
    } else {
        (data.len(), None)
    };
    let root = u64le(&data[end - 8..]) as usize;
    let len = u64le(&data[end - 16..]);
    let body_end = end - 16;
    let mut nodes = BTreeMap::new();
    let mut stack = vec![root];
    while let Some(a) = stack.pop() {
        if a == 0 || nodes.contains_key(&a) {
            continue;
        }
        if a < 16 || a >= body_end {
            return Err(format!("node address {} outside the body 16..{}", a, body_end));
        }
        let n = parse_node(&data[..body_end], version, a)?;
        if n.end < 16 {
            return Err("node crosses into the header".into());
        }
        for t in &n.trans {
            if t.2 != 0 && t.2 >= n.end {
                return Err(format!("transition of node {} points forward/into itself ({})", a, t.2));
            }
            stack.push(t.2);
        }
        nodes.insert(a, n);
    }
    Ok(Decoded { version, ty, len, root, checksum, nodes, body_end })
}

impl Decoded {
    /// node extents must tile [16, body_end) exactly; the root must be the last node
    pub fn tiling(&self) -> Result<(), String> {
        let mut pos = 16usize;
        for (_, n) in &self.nodes {
            if n.end != pos {
                return Err(format!("gap/overlap at {} (next node spans {}..={})", pos, n.end, n.start));
            }
            pos = n.start + 1;
        }
        if pos != self.body_end {
            return Err(format!("trailing gap {}..{}", pos, self.body_end));
        }
        if self.root != 0 && self.root + 1 != self.body_end {
            return Err("root is not the last node".into());
        }
        Ok(())
    }

    /// all (key, value) pairs in lexicographic order, iterative (keys may be very long)
    pub fn entries(&self) -> Vec<(Vec<u8>, u64)> {
        let mut out = vec![];
        let mut key: Vec<u8> = vec![];
        // frame: (addr, next transition index, accumulated output before this node)
        let mut stack: Vec<(usize, usize, u64)> = vec![];
        let visit = |a: usize, acc: u64, key: &Vec<u8>, out: &mut Vec<(Vec<u8>, u64)>| {
            if a == 0 {
                out.push((key.clone(), acc));
            } else {
                let n = &self.nodes[&a];
                if n.is_final {
                    out.push((key.clone(), acc.wrapping_add(n.final_out)));
                }
            }
        };
        visit(self.root, 0, &key, &mut out);
        stack.push((self.root, 0, 0));
        while let Some((a, i, acc)) = stack.pop() {
            if a == 0 {
                key.pop();
                continue;
            }
            let n = &self.nodes[&a];
            if i >= n.trans.len() {
                key.pop();
                continue;
            }
            let t = n.trans[i];
            stack.push((a, i + 1, acc));
            key.push(t.0);
            let acc2 = acc.wrapping_add(t.1);
            visit(t.2, acc2, &key, &mut out);
            stack.push((t.2, 0, acc2));
        }
        out
    }
}

/// bit-at-a-time CRC-32C (Castagnoli, reflected polynomial 0x82F63B78), no tables
pub fn crc32c(data: &[u8]) -> u32 {
    let mut c = !0u32;
    for &b in data {
        c ^= b as u32;
        for _ in 0..8 {
            c = if c & 1 == 1 { (c >> 1) ^ 0x82F63B78 } else { c >> 1 };
        }
    }
    !c
}

/// Snappy-style masking: rotate right by 15, add constant
pub fn mask(c: u32) -> u32 {
    ((c >> 15) | (c << 17)).wrapping_add(0xA282EAD8)
}

/// full structural validation of a version-3 file against an expected map; returns the decode
pub fn validate_v3(data: &[u8], ty: u64, want: &[(Vec<u8>, u64)]) -> Result<Decoded, String> {
    let d = decode(data)?;
    if d.version != 3 {
        return Err(format!("header version {} != 3", d.version));
    }
    if d.ty != ty {
        return Err(format!("header type {} != {}", d.ty, ty));
    }
    d.tiling()?;
    if d.len != want.len() as u64 {
        return Err(format!("footer key count {} != {}", d.len, want.len()));
    }
    let sum = mask(crc32c(&data[..data.len() - 4]));
    if d.checksum != Some(sum) {
        return Err(format!("footer checksum {:?} != reference {}", d.checksum, sum));
    }
    let got = d.entries();
    if got != want {
        let i = got.iter().zip(want.iter()).position(|(a, b)| a != b).unwrap_or(got.len().min(want.len()));
        return Err(format!("decoded content differs at entry {} (decoded {} entries, want {})", i, got.len(), want.len()));
    }
    Ok(d)
}


/// Choose the 4 bytes at `pos..pos+4` of `msg` so that mask(crc32c(msg)) == target (CRC is affine over GF(2)).
/// Returns false if the 32x32 system is singular (cannot happen for a 4-byte window, kept for safety).
pub fn forge_masked_crc(msg: &mut [u8], pos: usize, target: u32) -> bool {
    let want_crc = target.wrapping_sub(0xA282EAD8).rotate_left(15);
    for b in msg[pos..pos + 4].iter_mut() {
        *b = 0;
    }
    let base = crc32c(msg);
    let mut cols = [0u32; 32];
    for i in 0..32 {
        msg[pos + i / 8] ^= 1 << (i % 8);
        cols[i] = crc32c(msg) ^ base;
        msg[pos + i / 8] ^= 1 << (i % 8);
    }
    // solve sum x_i * cols[i] = base ^ want_crc by Gaussian elimination over GF(2)
    let rhs = base ^ want_crc;
    // rows = output bits; build augmented matrix: row r has bit i set if cols[i] has bit r
    let mut rows = [0u64; 32];
    for r in 0..32 {
        let mut v = 0u64;
        for i in 0..32 {
            if cols[i] >> r & 1 == 1 {
                v |= 1 << i;
            }
        }
        if rhs >> r & 1 == 1 {
            v |= 1 << 32;
        }
        rows[r] = v;
    }
    let mut piv_of_col = [usize::MAX; 32];
    let mut r0 = 0;
    for c in 0..32 {
        if let Some(p) = (r0..32).find(|&r| rows[r] >> c & 1 == 1) {
            rows.swap(r0, p);
            for r in 0..32 {
                if r != r0 && rows[r] >> c & 1 == 1 {
                    rows[r] ^= rows[r0];
                }
            }
            piv_of_col[c] = r0;
            r0 += 1;
        }
    }
    if r0 < 32 {
        return false;
    }
    let mut x = 0u32;
    for c in 0..32 {
        if rows[piv_of_col[c]] >> 32 & 1 == 1 {
            x |= 1 << c;
        }
    }
    for i in 0..32 {
        if x >> i & 1 == 1 {
            msg[pos + i / 8] ^= 1 << (i % 8);
        }
    }
    mask(crc32c(msg)) == target
}
