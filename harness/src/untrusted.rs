//! Shared by fstmon (native) and fstmiri (Miri): image generators and the "open, then verify" gate.
use crate::rng::Rng;
use fst::raw::Fst;
use fst::{Map, Set};
use std::panic::{catch_unwind, AssertUnwindSafe};

#[derive(Default, Clone, Debug)]
pub struct Stats {
    pub images: u64,
    pub rejected_format: u64,
    pub rejected_version: u64,
    pub rejected_other: u64,
    pub opened: u64,
    pub verify_ok: u64,
    pub verify_mismatch: u64,
    pub verify_missing: u64,
    pub panics: u64,
    pub first_panic: Option<String>,
    pub fp: u64,
}

impl Stats {
    pub fn merge(&mut self, o: &Stats) {
        self.images += o.images;
        self.rejected_format += o.rejected_format;
        self.rejected_version += o.rejected_version;
        self.rejected_other += o.rejected_other;
        self.opened += o.opened;
        self.verify_ok += o.verify_ok;
        self.verify_mismatch += o.verify_mismatch;
        self.verify_missing += o.verify_missing;
        self.panics += o.panics;
        if self.first_panic.is_none() {
            self.first_panic = o.first_panic.clone();
        }
        self.fp ^= o.fp;
    }
    pub fn line(&self) -> String {
        format!(
            "images={} rejected_format={} rejected_version={} rejected_other={} opened={} verify_ok={} verify_mismatch={} verify_missing={} panics={} fp={:016x} first_panic={}",
            self.images,
            self.rejected_format,
            self.rejected_version,
            self.rejected_other,
            self.opened,
            self.verify_ok,
            self.verify_mismatch,
            self.verify_missing,
            self.panics,
            self.fp,
            self.first_panic.clone().unwrap_or_else(|| "-".into()).replace('\n', " ")
        )
    }
    pub fn parse(line: &str) -> Option<Stats> {
        let mut s = Stats::default();
        let (head, fp) = match line.find(" first_panic=") {
            Some(p) => (&line[..p], &line[p + 13..]),
            None => (line, "-"),
        };
        for tok in head.split_whitespace() {
            let mut it = tok.splitn(2, '=');
            let k = it.next()?;
            let v = it.next().unwrap_or("");
            let n = || v.parse::<u64>().ok();
            match k {
                "images" => s.images = n()?,
                "rejected_format" => s.rejected_format = n()?,
                "rejected_version" => s.rejected_version = n()?,
                "rejected_other" => s.rejected_other = n()?,
                "opened" => s.opened = n()?,
                "verify_ok" => s.verify_ok = n()?,
                "verify_mismatch" => s.verify_mismatch = n()?,
                "verify_missing" => s.verify_missing = n()?,
                "panics" => s.panics = n()?,
                "fp" => s.fp = u64::from_str_radix(v, 16).ok()?,
                _ => {}
            }
        }
        if fp != "-" {
            s.first_panic = Some(fp.to_string());
        }
        Some(s)
    }
}

fn hexs(b: &[u8]) -> String {
    let mut s = String::new();
    for c in b.iter().take(96) {
        s.push_str(&format!("{:02x}", c));
    }
    if b.len() > 96 {
        s.push_str("..");
    }
    s
}

/// The total gate of the statement: open (three wrappers), metadata accessors, verify. Never panics itself;
/// a panic of the library is recorded.
pub fn gate(img: &[u8], st: &mut Stats) {
    st.images += 1;
    let r = catch_unwind(AssertUnwindSafe(|| {
        let mut class = 0u8; // 1 format, 2 version, 3 other, 4 opened
        let mut ver = 0u8; // 1 ok, 2 mismatch, 3 missing
        match Fst::new(img) {
            Err(fst::Error::Fst(fst::raw::Error::Format { .. })) => class = 1,
            Err(fst::Error::Fst(fst::raw::Error::Version { .. })) => class = 2,
            Err(_) => class = 3,
            Ok(f) => {
                class = 4;
                let _ = f.len();
                let _ = f.is_empty();
                let _ = f.fst_type();
                let n = f.size();
                let b = f.as_bytes();
                assert_eq!(n, b.len());
                let v = f.to_vec();
                assert_eq!(v.len(), n);
                ver = match f.verify() {
                    Ok(()) => 1,
                    Err(fst::Error::Fst(fst::raw::Error::ChecksumMismatch { .. })) => 2,
                    Err(fst::Error::Fst(fst::raw::Error::ChecksumMissing)) => 3,
                    Err(_) => 4,
                };
                let _ = f.as_inner();
            }
        }
        // the same bytes arriving through map_data on a container that was opened from good bytes
        GOOD.with(|good| {
            if let Ok(f0) = Fst::new(good.clone()) {
                if let Ok(g) = f0.map_data(|_| img.to_vec()) {
                    let _ = (g.len(), g.is_empty(), g.fst_type(), g.size());
                    let _ = g.as_bytes().len();
                    let _ = g.verify();
                }
            }
            if let Ok(m0) = Map::new(good.clone()) {
                if let Ok(m) = m0.map_data(|_| img.to_vec()) {
                    let _ = (m.len(), m.is_empty());
                    let _ = m.as_fst().verify();
                }
            }
        });
        if let Ok(m) = Map::new(img) {
            let _ = (m.len(), m.is_empty());
            let _ = m.as_fst().verify();
        }
        if let Ok(s) = Set::new(img.to_vec()) {
            let _ = (s.len(), s.is_empty());
            let _ = s.as_fst().size();
        }
        (class, ver)
    }));
    match r {
        Ok((class, ver)) => {
            match class {
                1 => st.rejected_format += 1,
                2 => st.rejected_version += 1,
                3 => st.rejected_other += 1,
                _ => st.opened += 1,
            }
            match ver {
                1 => st.verify_ok += 1,
                2 => st.verify_mismatch += 1,
                3 => st.verify_missing += 1,
                _ => {}
            }
            st.fp = st.fp.rotate_left(1) ^ ((class as u64) << 8 | ver as u64);
        }
        Err(e) => {
            st.panics += 1;
            if st.first_panic.is_none() {
                let msg = e.downcast_ref::<String>().cloned().or_else(|| e.downcast_ref::<&str>().map(|s| s.to_string())).unwrap_or_default();
                st.first_panic = Some(format!("len={} hex={} msg={}", img.len(), hexs(img), msg));
            }
        }
    }
}

thread_local! {
    /// a small valid FST (hand-assembled bytes of the version-3 set {""}: 16-byte header, len=1, root=0, checksum)
    static GOOD: Vec<u8> = good_bytes();
}

fn good_bytes() -> Vec<u8> {
    let mut v = vec![];
    v.extend_from_slice(&3u64.to_le_bytes());
    v.extend_from_slice(&0u64.to_le_bytes());
    v.extend_from_slice(&1u64.to_le_bytes());
    v.extend_from_slice(&0u64.to_le_bytes());
    let c = masked_crc32c(&v);
    v.extend_from_slice(&c.to_le_bytes());
    v
}

/// bit-at-a-time CRC-32C + Snappy masking (independent of the crate)
pub fn masked_crc32c(data: &[u8]) -> u32 {
    let mut c = !0u32;
    for &b in data {
        c ^= b as u32;
        for _ in 0..8 {
            c = if c & 1 == 1 { (c >> 1) ^ 0x82F63B78 } else { c >> 1 };
        }
    }
    let c = !c;
    ((c >> 15) | (c << 17)).wrapping_add(0xA282EAD8)
}

/// make the trailing 4 bytes the correct checksum of the rest (so that verify() gets past the comparison)
pub fn fix_checksum(img: &mut Vec<u8>) {
    if img.len() >= 4 {
        let n = img.len() - 4;
        let c = masked_crc32c(&img[..n]);
        img[n..].copy_from_slice(&c.to_le_bytes());
    }
}

pub const FIELD_VALUES: usize = 14;
fn field(i: usize, l: usize) -> u64 {
    let l = l as u64;
    match i {
        0 => 0,
        1 => 1,
        2 => 2,
        3 => 3,
        4 => 4,
        5 => 20,
        6 => 21,
        7 => l.wrapping_sub(21),
        8 => l.wrapping_sub(20),
        9 => l.wrapping_sub(17),
        10 => l,
        11 => 1 << 32,
        12 => u64::MAX - 20,
        _ => u64::MAX,
    }
}
pub const VERSIONS: [u64; 7] = [0, 1, 2, 3, 4, 1 << 40, u64::MAX];

/// boundary image #(l, vi, ri, li, variant)
pub fn boundary_image(l: usize, vi: usize, ri: usize, li: usize, variant: usize, rng: &mut Rng) -> Vec<u8> {
    let mut img = vec![0u8; l];
    match variant % 3 {
        0 => {}
        1 => {
            for b in img.iter_mut() {
                *b = 0xff;
            }
        }
        _ => {
            for b in img.iter_mut() {
                *b = rng.next() as u8;
            }
        }
    }
    let ver = VERSIONS[vi % VERSIONS.len()];
    if l >= 8 {
        img[..8].copy_from_slice(&ver.to_le_bytes());
    } else {
        for (i, b) in img.iter_mut().enumerate() {
            *b = ver.to_le_bytes()[i];
        }
    }
    // footer in the layout of the claimed version (v<=2: no checksum)
    let end = if ver <= 2 { l } else { l.saturating_sub(4) };
    if end >= 16 {
        img[end - 8..end].copy_from_slice(&field(ri, l).to_le_bytes());
        img[end - 16..end - 8].copy_from_slice(&field(li, l).to_le_bytes());
    }
    img
}

/// a few small valid FSTs (as bytes) to truncate and mutate
pub fn valid_fsts(rng: &mut Rng, n: usize, small_cache: bool) -> Vec<Vec<u8>> {
    let mut out = vec![];
    for i in 0..n {
        let nk = [0usize, 1, 2, 5, 12, 40][i % 6];
        let alpha: &[u8] = if i % 2 == 0 { b"ab" } else { b"te\x00\xffxyz" };
        let mut keys: Vec<Vec<u8>> = (0..nk)
            .map(|_| {
                let l = rng.usize(5);
                rng.bytes(l, alpha)
            })
            .collect();
        if i % 7 == 3 {
            // a wide node
            keys.extend((0..40u8).map(|b| vec![b'w', b]));
        }
        keys.sort();
        keys.dedup();
        // under Miri the default 20000-cell node cache costs minutes to initialise: use a small one there (hook H1)
        let mut b = if small_cache { fst::raw::Builder::verif_new_with_cache(Vec::new(), 0, 16, 2).unwrap() } else { fst::raw::Builder::memory() };
        for (j, k) in keys.iter().enumerate() {
            let v = match i % 4 {
                0 => 0,
                1 => j as u64,
                2 => rng.next(),
                _ => (keys.len() - j) as u64 * 300,
            };
            b.insert(k, v).unwrap();
        }
        out.push(b.into_inner().unwrap());
    }
    out
}
