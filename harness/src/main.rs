//! fstmon: runtime monitors for the semantic properties C01..C20 of BurntSushi/fst.
//! usage: fstmon <Cxx> [--tier quick|thorough] [--seed N] [--replay file] [extra args]
mod allocmeter;
mod build;
mod checks;
mod ctx;
mod gen;
mod json;
mod refdec;
mod refenc;
mod rng;
mod sinks;
mod dfa;
mod autspec;
mod levref;
mod rangeq;
mod untrusted;

use ctx::Tier;

#[global_allocator]
static ALLOC: allocmeter::Meter = allocmeter::Meter;

fn main() {
    let args: Vec<String> = std::env::args().collect();
    if args.len() < 2 {
        eprintln!("usage: fstmon <Cxx> [--tier quick|thorough] [--seed N] [--replay file]");
        std::process::exit(2);
    }
    let id = args[1].clone();
    let mut tier = match std::env::var("VERIF_TIER").ok().as_deref() {
        Some("thorough") => Tier::Thorough,
        _ => Tier::Quick,
    };
    let mut seed: u64 = std::env::var("VERIF_SEED").ok().and_then(|s| s.parse().ok()).unwrap_or(1);
    let mut extra: Vec<String> = vec![];
    let mut i = 2;
    while i < args.len() {
        match args[i].as_str() {
            "--tier" => {
                i += 1;
                tier = if args[i] == "thorough" { Tier::Thorough } else { Tier::Quick };
            }
            "--seed" => {
                i += 1;
                seed = args[i].parse().unwrap_or(1);
            }
            "--replay" => {
                i += 1;
                // a replay file records tier and seed; generation is deterministic, so re-running
                // the check with them reproduces the recorded case
                if let Some(j) = std::fs::read_to_string(&args[i]).ok().and_then(|t| json::parse(&t)) {
                    if let Some(s) = j.get("seed").and_then(|s| s.as_u64()) {
                        seed = s;
                    }
                    if let Some(t) = j.get("tier").and_then(|s| s.as_str()) {
                        tier = if t == "thorough" { Tier::Thorough } else { Tier::Quick };
                    }
                    println!("replaying {} at tier={} seed={}: {}", args[i], tier.name(), seed, j.get("detail").and_then(|d| d.as_str()).unwrap_or(""));
                } else {
                    eprintln!("cannot read replay file {}", args[i]);
                    std::process::exit(2);
                }
            }
            other => extra.push(other.to_string()),
        }
        i += 1;
    }
    ctx::install_panic_hook();
    if id.len() == 3 && id.starts_with('C') {
        let root = std::env::var_os("VERIF_ROOT").map(std::path::PathBuf::from).unwrap_or_else(|| std::path::PathBuf::from("/verif"));
        ctx::start_hang_monitor(&id, tier.name(), seed, root);
    }
    let code = checks::dispatch(&id, tier, seed, &extra);
    std::process::exit(code);
}
