//! Independent encoder for format versions 1, 2 and 3, written from the format description.
//! Builds its own (suffix-merged) transducer with a randomised but valid placement of outputs along the
//! paths (incl. non-zero final outputs), random valid node forms and non-minimal pack widths.
use crate::gen::Kv;
use crate::refdec::{crc32c, mask, COMMON_INV};
use crate::rng::Rng;
use std::collections::{BTreeMap, HashMap};

#[derive(Default)]
struct T {
    kids: BTreeMap<u8, usize>,
    val: Option<u64>,
    min: u64,
}

fn psize(n: u64) -> usize {
    if n == 0 {
        1
    } else {
        ((64 - n.leading_zeros() as usize) + 7) / 8
    }
}
fn pack(out: &mut Vec<u8>, v: u64, n: usize) {
    for i in 0..n {
        out.push((v >> (8 * i)) as u8);
    }
}
fn common_idx(b: u8) -> Option<u8> {
    COMMON_INV.iter().position(|&c| c == b).map(|p| (p + 1) as u8)
}

struct Enc<'a> {
    tr: Vec<T>,
    version: u64,
    out: Vec<u8>,
    rng: &'a mut Rng,
    memo: HashMap<(bool, u64, Vec<(u8, u64, usize)>), usize>,
    last_addr: usize,
    /// encoder policy: 0 = always the widest/plain forms, 1 = random valid forms, 2 = most compact forms
    policy: u8,
    /// push every output as far towards the root as possible (what the crate's builder does; get_key relies on it)
    canonical_outputs: bool,
}

impl<'a> Enc<'a> {
    /// iterative post-order encoding; returns the address of the node for trie node `root`
    fn encode(&mut self, root: usize) -> usize {
        // compute subtree minima (iteratively, children have larger indices than parents)
        for i in (0..self.tr.len()).rev() {
            let mut m = self.tr[i].val.unwrap_or(u64::MAX);
            let kids: Vec<usize> = self.tr[i].kids.values().cloned().collect();
            for c in kids {
                m = m.min(self.tr[c].min);
            }
            self.tr[i].min = m;
        }
        // frames: (trie node, base output already emitted above, child iterator position, collected transitions)
        struct F {
            t: usize,
            base: u64,
            kids: Vec<(u8, usize)>,
            next: usize,
            trans: Vec<(u8, u64, usize)>,
            pending_out: u64,
        }
        let mk = |tr: &Vec<T>, t: usize, base: u64| F { t, base, kids: tr[t].kids.iter().map(|(b, c)| (*b, *c)).collect(), next: 0, trans: vec![], pending_out: 0 };
        let mut stack = vec![mk(&self.tr, root, 0)];
        let mut result = 0usize;
        loop {
            let top = stack.len() - 1;
            if stack[top].next < stack[top].kids.len() {
                let (_, c) = stack[top].kids[stack[top].next];
                let base = stack[top].base;
                let room = self.tr[c].min - base;
                let o = match if self.canonical_outputs { 1 } else { self.rng.below(3) } {
                    0 => 0,
                    1 => room,
                    _ => {
                        if room == 0 {
                            0
                        } else {
                            self.rng.below(room).saturating_add(self.rng.below(2)).min(room)
                        }
                    }
                };
                stack[top].pending_out = o;
                let f = mk(&self.tr, c, base + o);
                stack.push(f);
            } else {
                let f = stack.pop().unwrap();
                let node = &self.tr[f.t];
                let is_final = node.val.is_some();
                let fo = node.val.map(|v| v - f.base).unwrap_or(0);
                let addr = self.emit(is_final, fo, &f.trans);
                if stack.is_empty() {
                    result = addr;
                    break;
                }
                let top = stack.len() - 1;
                let (b, _) = stack[top].kids[stack[top].next];
                let o = stack[top].pending_out;
                stack[top].trans.push((b, o, addr));
                stack[top].next += 1;
            }
        }
        result
    }

    fn emit(&mut self, is_final: bool, fo: u64, trans: &[(u8, u64, usize)]) -> usize {
        if is_final && trans.is_empty() && fo == 0 {
            return 0;
        }
        let key = (is_final, fo, trans.to_vec());
        if let Some(&a) = self.memo.get(&key) {
            return a;
        }
        let start = self.out.len();
        let compact = match self.policy {
            0 => false,
            2 => true,
            _ => self.rng.chance(2, 3),
        };
        let one = trans.len() == 1 && !is_final;
        if one && compact {
            let (inp, o, tgt) = trans[0];
            let ci = if self.policy == 2 || self.rng.chance(3, 4) { common_idx(inp) } else { None };
            if tgt != 0 && tgt == self.last_addr && o == 0 && tgt + 1 == start {
                // one-trans-next
                if ci.is_none() {
                    self.out.push(inp);
                }
                self.out.push(0b1100_0000 | ci.unwrap_or(0));
            } else {
                // one-trans
                let osize = if o == 0 { 0 } else { psize(o) + (self.policy == 1 && psize(o) < 8 && self.rng.chance(1, 4)) as usize };
                if osize > 0 {
                    pack(&mut self.out, o, osize);
                }
                let delta = if tgt == 0 { 0 } else { (start - tgt) as u64 };
                let tsize = psize(delta) + (self.policy == 1 && psize(delta) < 8 && self.rng.chance(1, 4)) as usize;
                pack(&mut self.out, delta, tsize);
                self.out.push(((tsize as u8) << 4) | osize as u8);
                if ci.is_none() {
                    self.out.push(inp);
                }
                self.out.push(0b1000_0000 | ci.unwrap_or(0));
            }
        } else {
            let m = trans.iter().map(|t| t.1).chain(std::iter::once(fo)).max().unwrap();
            let osize = if m == 0 { 0 } else { psize(m) + (self.policy == 1 && psize(m) < 8 && self.rng.chance(1, 4)) as usize };
            let tsize = trans.iter().map(|t| if t.2 == 0 { 1 } else { psize((start - t.2) as u64) }).max().unwrap_or(0);
            let tsize = if tsize > 0 && tsize < 8 && self.policy == 1 && self.rng.chance(1, 5) { tsize + 1 } else { tsize };
            if osize > 0 {
                if is_final {
                    pack(&mut self.out, fo, osize);
                }
                for t in trans.iter().rev() {
                    pack(&mut self.out, t.1, osize);
                }
            }
            for t in trans.iter().rev() {
                pack(&mut self.out, if t.2 == 0 { 0 } else { (start - t.2) as u64 }, tsize);
            }
            for t in trans.iter().rev() {
                self.out.push(t.0);
            }
            let n = trans.len();
            if self.version >= 2 && n > 32 {
                // absent bytes: any value >= n
                let filler = if n == 256 { 255 } else { (n as u8).max(if self.policy == 1 { 200 } else { 255 }).max(n as u8) };
                let mut ix = [filler; 256];
                for (i, t) in trans.iter().enumerate() {
                    ix[t.0 as usize] = i as u8;
                }
                self.out.extend_from_slice(&ix);
            }
            self.out.push(((tsize as u8) << 4) | (osize as u8));
            let bits = if n <= 63 { n as u8 } else { 0 };
            if bits == 0 {
                self.out.push(if n == 256 { 1 } else { n as u8 });
            }
            self.out.push(bits | if is_final { 0x40 } else { 0 });
        }
        let addr = self.out.len() - 1;
        self.last_addr = addr;
        self.memo.insert(key, addr);
        addr
    }
}

/// Encode `model` (sorted, unique keys) as a version `version` file of type `ty`.
pub fn encode(model: &Kv, version: u64, ty: u64, policy: u8, rng: &mut Rng) -> Vec<u8> {
    encode_with(model, version, ty, policy, false, rng)
}

pub fn encode_with(model: &Kv, version: u64, ty: u64, policy: u8, canonical_outputs: bool, rng: &mut Rng) -> Vec<u8> {
    let mut tr = vec![T::default()];
    for (k, v) in model {
        let mut n = 0;
        for &b in k {
            n = match tr[n].kids.get(&b) {
                Some(&c) => c,
                None => {
                    tr.push(T::default());
                    let c = tr.len() - 1;
                    tr[n].kids.insert(b, c);
                    c
                }
            };
        }
        tr[n].val = Some(*v);
    }
    let mut out = vec![];
    out.extend_from_slice(&version.to_le_bytes());
    out.extend_from_slice(&ty.to_le_bytes());
    let root = if model.is_empty() {
        // the empty FST: a non-final root without transitions
        out.push(0);
        out.push(0);
        out.push(0);
        out.len() - 1
    } else {
        let mut e = Enc { tr, version, out, rng, memo: HashMap::new(), last_addr: 1, policy, canonical_outputs };
        let r = e.encode(0);
        out = e.out;
        r
    };
    out.extend_from_slice(&(model.len() as u64).to_le_bytes());
    out.extend_from_slice(&(root as u64).to_le_bytes());
    if version >= 3 {
        let c = mask(crc32c(&out));
        out.extend_from_slice(&c.to_le_bytes());
    }
    out
}
