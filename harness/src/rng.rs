//! splitmix64; every random choice in the harness derives from VERIF_SEED and a stream id.
#[derive(Clone)]
pub struct Rng(pub u64);

pub fn mix(mut z: u64) -> u64 {
    z = z.wrapping_add(0x9E3779B97F4A7C15);
    z = (z ^ (z >> 30)).wrapping_mul(0xBF58476D1CE4E5B9);
    z = (z ^ (z >> 27)).wrapping_mul(0x94D049BB133111EB);
    z ^ (z >> 31)
}

impl Rng {
    pub fn new(seed: u64, stream: u64) -> Rng {
        Rng(mix(seed ^ mix(stream.wrapping_mul(0xA24BAED4963EE407))))
    }
    pub fn next(&mut self) -> u64 {
        self.0 = self.0.wrapping_add(0x9E3779B97F4A7C15);
        let mut z = self.0;
        z = (z ^ (z >> 30)).wrapping_mul(0xBF58476D1CE4E5B9);
        z = (z ^ (z >> 27)).wrapping_mul(0x94D049BB133111EB);
        z ^ (z >> 31)
    }
    /// uniform in 0..n (n > 0)
    pub fn below(&mut self, n: u64) -> u64 {
        self.next() % n
    }
    pub fn usize(&mut self, n: usize) -> usize {
        (self.next() % n as u64) as usize
    }
    pub fn chance(&mut self, num: u64, den: u64) -> bool {
        self.below(den) < num
    }
    pub fn pick<'a, T>(&mut self, xs: &'a [T]) -> &'a T {
        &xs[self.usize(xs.len())]
    }
    pub fn bytes(&mut self, len: usize, alphabet: &[u8]) -> Vec<u8> {
        (0..len).map(|_| *self.pick(alphabet)).collect()
    }
}

/// FNV-1a over bytes, used for fingerprints of cases (distinct counting).
pub fn fnv(data: &[u8]) -> u64 {
    let mut h: u64 = 14695981039346656037;
    for &b in data {
        h = (h ^ b as u64).wrapping_mul(1099511628211);
    }
    h
}
pub fn fnv_add(h: u64, data: &[u8]) -> u64 {
    let mut h = h ^ 0x51_7c_c1_b7_27_22_0a_95;
    for &b in data {
        h = (h ^ b as u64).wrapping_mul(1099511628211);
    }
    h
}
pub fn fnv_u64(h: u64, v: u64) -> u64 {
    mix(mix(h) ^ v.wrapping_mul(0x9E3779B97F4A7C15))
}
