//! Run context: tiers, evidence accumulation, violation reporting, known findings, verdicts.
use crate::json::J;
use std::cell::RefCell;
use std::collections::{BTreeMap, HashSet};
use std::panic::{self, AssertUnwindSafe};
use std::path::PathBuf;
use std::time::Instant;

#[derive(Clone, Copy, PartialEq, Eq, Debug)]
pub enum Tier {
    Quick,
    Thorough,
}
impl Tier {
    pub fn name(self) -> &'static str {
        match self {
            Tier::Quick => "quick",
            Tier::Thorough => "thorough",
        }
    }
    pub fn pick<T>(self, q: T, t: T) -> T {
        match self {
            Tier::Quick => q,
            Tier::Thorough => t,
        }
    }
}

pub struct Violation {
    pub sig: String,
    pub detail: String,
    pub case: J,
}

/// Mergeable accumulator; one per worker shard.
pub struct Ev {
    pub evaluations: u64,
    pub fps: HashSet<u64>,
    pub counters: BTreeMap<String, u64>,
    pub samples: Vec<J>,
    pub violations: Vec<Violation>,
    pub nviol: u64,
    pub notes: BTreeMap<String, J>,
    /// distinct non-trivial cases counted by the check itself (e.g. per-FST distinct probes), added to fps.len()
    pub distinct_extra: u64,
    /// worker threads of `Ctx::par` interleave their judged operations with unrelated library use
    pub noise_on: bool,
    pub since_noise: u64,
}

impl Ev {
    pub fn new() -> Ev {
        Ev { evaluations: 0, fps: HashSet::new(), counters: BTreeMap::new(), samples: vec![], violations: vec![], nviol: 0, notes: BTreeMap::new(), distinct_extra: 0, noise_on: false, since_noise: 0 }
    }
    /// one oracle evaluation; `fp` = fingerprint if the case is non-trivial by the check's rule
    pub fn eval(&mut self, fp: Option<u64>) {
        self.evaluations += 1;
        // interleave the judged work of this thread with unrelated library use (see build::history_noise)
        if self.noise_on {
            self.since_noise += 1;
            if self.since_noise >= 4093 {
                self.since_noise = 0;
                crate::build::history_noise(self.evaluations as usize);
                *self.counters.entry("history:noise-rounds-between-judged-operations".to_string()).or_insert(0) += 1;
            }
        }
        if let Some(fp) = fp {
            // cap memory: beyond 4M distinct fingerprints keep counting evaluations only
            if self.fps.len() < 4_000_000 {
                self.fps.insert(fp);
            }
        }
    }
    pub fn evals(&mut self, n: u64) {
        self.evaluations += n;
    }
    pub fn count(&mut self, key: &str) {
        self.add(key, 1);
    }
    pub fn add(&mut self, key: &str, n: u64) {
        if let Some(v) = self.counters.get_mut(key) {
            *v += n;
        } else {
            self.counters.insert(key.to_string(), n);
        }
    }
    pub fn max(&mut self, key: &str, n: u64) {
        let e = self.counters.entry(key.to_string()).or_insert(0);
        if n > *e {
            *e = n;
        }
    }
    pub fn get(&self, key: &str) -> u64 {
        self.counters.get(key).cloned().unwrap_or(0)
    }
    pub fn sample(&mut self, j: J) {
        if self.samples.len() < 4 {
            self.samples.push(j);
        }
    }
    pub fn note(&mut self, key: &str, j: J) {
        self.notes.insert(key.to_string(), j);
    }
    pub fn violate(&mut self, sig: &str, detail: String, case: J) {
        self.nviol += 1;
        if self.violations.len() < 8 {
            self.violations.push(Violation { sig: sig.to_string(), detail, case });
        }
    }
    pub fn merge(&mut self, o: Ev) {
        self.evaluations += o.evaluations;
        for fp in o.fps {
            if self.fps.len() < 16_000_000 {
                self.fps.insert(fp);
            }
        }
        for (k, v) in o.counters {
            if k.starts_with("max:") {
                let e = self.counters.entry(k).or_insert(0);
                if v > *e {
                    *e = v;
                }
            } else {
                *self.counters.entry(k).or_insert(0) += v;
            }
        }
        for s in o.samples {
            if self.samples.len() < 8 {
                self.samples.push(s);
            }
        }
        self.nviol += o.nviol;
        self.distinct_extra += o.distinct_extra;
        for v in o.violations {
            if self.violations.len() < 16 {
                self.violations.push(v);
            }
        }
        for (k, v) in o.notes {
            self.notes.insert(k, v);
        }
    }
}

pub struct Ctx {
    pub id: &'static str,
    pub tier: Tier,
    pub seed: u64,
    pub start: Instant,
    pub root: PathBuf,
    pub threads: usize,
}

impl Ctx {
    pub fn new(id: &'static str, tier: Tier, seed: u64) -> Ctx {
        let root = std::env::var_os("VERIF_ROOT").map(PathBuf::from).unwrap_or_else(|| PathBuf::from("/verif"));
        let threads = std::env::var("VERIF_THREADS").ok().and_then(|s| s.parse().ok()).unwrap_or_else(|| std::thread::available_parallelism().map(|n| n.get()).unwrap_or(4));
        Ctx { id, tier, seed, start: Instant::now(), root, threads }
    }
    pub fn quick(&self) -> bool {
        self.tier == Tier::Quick
    }
    /// run `f(shard, nshards, &mut Ev)` on `self.threads` worker threads, merge the evidence
    pub fn par<F>(&self, f: F) -> Ev
    where
        F: Fn(usize, usize, &mut Ev) + Sync,
    {
        let n = self.threads.max(1);
        let mut total = Ev::new();
        let results: Vec<Ev> = std::thread::scope(|sc| {
            let hs: Vec<_> = (0..n)
                .map(|i| {
                    let f = &f;
                    std::thread::Builder::new()
                        .stack_size(256 << 20)
                        .spawn_scoped(sc, move || {
                            let mut ev = Ev::new();
                            ev.noise_on = true;
                            // every worker thread starts with a history (see build::history_noise)
                            crate::build::history_noise(i);
                            if let Err(msg) = guard(|| f(i, n, &mut ev)) {
                                ev.violate("panic", format!("panic in shard {}: {}", i, msg), J::s(msg.clone()));
                            }
                            worker_done();
                            ev
                        })
                        .unwrap()
                })
                .collect();
            hs.into_iter().map(|h| h.join().unwrap()).collect()
        });
        for r in results {
            total.merge(r);
        }
        total
    }
}

thread_local! {
    static LAST_PANIC: RefCell<String> = RefCell::new(String::new());
}

pub fn install_panic_hook() {
    panic::set_hook(Box::new(|info| {
        let msg = if let Some(s) = info.payload().downcast_ref::<&str>() {
            s.to_string()
        } else if let Some(s) = info.payload().downcast_ref::<String>() {
            s.clone()
        } else {
            "<non-string panic>".to_string()
        };
        let loc = info.location().map(|l| format!("{}:{}", l.file(), l.line())).unwrap_or_default();
        LAST_PANIC.with(|p| *p.borrow_mut() = format!("{} at {}", msg, loc));
    }));
}

// ---------------------------------------------------------------------------------------------------------------------------
// Non-termination monitor. "The stream ... then ends", "the call returns Err", "open returns Ok or Err": an operation that never
// returns violates the statement as much as a wrong result, but cannot be observed from inside the stuck thread. Every worker
// thread counts its guarded operations (one relaxed atomic increment per `guard` entry/exit); a monitor thread samples, per worker,
// that counter together with the CPU TIME the worker thread itself has consumed (/proc/self/task/<tid>/stat, user+system ticks).
// A worker that burns more than the budget of its OWN CPU time without starting or finishing a single guarded operation is stuck in
// one operation. CPU time of the thread, not wall-clock time: a loaded machine makes the thread slower but does not make it consume
// CPU seconds. Budgets: quick 240 CPU-seconds (the longest guarded operation of the quick tier takes < 10), thorough 3 hours
// (one thorough operation builds a 4.4 GiB FST in ~16 minutes).
pub struct WorkerSlot {
    pub tid: u64,
    pub events: std::sync::atomic::AtomicU64,
    pub done: std::sync::atomic::AtomicBool,
}
static WORKERS: std::sync::Mutex<Vec<std::sync::Arc<WorkerSlot>>> = std::sync::Mutex::new(Vec::new());
static RUN_INFO: std::sync::OnceLock<(String, String, u64, PathBuf)> = std::sync::OnceLock::new();
pub static MAX_GAP_TICKS: std::sync::atomic::AtomicU64 = std::sync::atomic::AtomicU64::new(0);
thread_local! {
    static MY_SLOT: RefCell<Option<std::sync::Arc<WorkerSlot>>> = RefCell::new(None);
}

struct BusyGuard;
impl Drop for BusyGuard {
    fn drop(&mut self) {
        crate::allocmeter::HOUSEKEEPING_BUSY.store(false, std::sync::atomic::Ordering::SeqCst);
    }
}

fn thread_cpu_ticks(tid: u64) -> Option<u64> {
    let stat = std::fs::read_to_string(format!("/proc/self/task/{}/stat", tid)).ok()?;
    let after = &stat[stat.rfind(')')? + 2..];
    let f: Vec<&str> = after.split_whitespace().collect();
    Some(f.get(11)?.parse::<u64>().ok()? + f.get(12)?.parse::<u64>().ok()?)
}

/// called once from main: remembers what to report, starts the monitor thread
pub fn start_hang_monitor(id: &str, tier: &str, seed: u64, root: PathBuf) {
    let _ = RUN_INFO.set((id.to_string(), tier.to_string(), seed, root));
    // memory ceiling of the tier: quick workloads stay below 2 GiB, thorough ones below 12 GiB (one 4.4 GiB FST while its Vec doubles)
    let ceiling_gib: u64 = std::env::var("VERIF_HEAP_CEILING_GIB").ok().and_then(|s| s.parse::<u64>().ok()).unwrap_or(if tier == "thorough" { 40 } else { 16 });
    crate::allocmeter::set_ceiling(ceiling_gib << 30);
    let budget_ticks: u64 = std::env::var("VERIF_HANG_CPU_SECONDS").ok().and_then(|s| s.parse::<u64>().ok()).unwrap_or(if tier == "thorough" { 3 * 3600 } else { 240 }) * 100;
    let _ = std::thread::Builder::new().name("hang-monitor".into()).spawn(move || {
        // per worker: (events seen, cpu ticks when that value was first seen)
        let mut seen: std::collections::HashMap<u64, (u64, u64)> = Default::default();
        loop {
            std::thread::sleep(std::time::Duration::from_millis(1500));
            // stay out of the allocation monitors' measured sections (this thread allocates while it samples)
            if crate::allocmeter::section_open() {
                continue;
            }
            crate::allocmeter::HOUSEKEEPING_BUSY.store(true, std::sync::atomic::Ordering::SeqCst);
            if crate::allocmeter::section_open() {
                crate::allocmeter::HOUSEKEEPING_BUSY.store(false, std::sync::atomic::Ordering::SeqCst);
                continue;
            }
            let _busy = BusyGuard;
            let workers: Vec<std::sync::Arc<WorkerSlot>> = WORKERS.lock().map(|w| w.clone()).unwrap_or_default();
            for w in workers {
                if w.done.load(std::sync::atomic::Ordering::Relaxed) {
                    continue;
                }
                let ev = w.events.load(std::sync::atomic::Ordering::Relaxed);
                let ticks = match thread_cpu_ticks(w.tid) {
                    Some(t) => t,
                    None => continue,
                };
                let e = seen.entry(w.tid).or_insert((ev, ticks));
                if e.0 != ev {
                    *e = (ev, ticks);
                    continue;
                }
                let gap = ticks.saturating_sub(e.1);
                MAX_GAP_TICKS.fetch_max(gap, std::sync::atomic::Ordering::Relaxed);
                if gap > budget_ticks {
                    report_hang(w.tid, ev, gap);
                }
            }
        }
    });
}

fn report_hang(tid: u64, events: u64, gap_ticks: u64) -> ! {
    let (id, tier, seed, root) = RUN_INFO.get().cloned().unwrap_or(("C00".into(), "quick".into(), 1, PathBuf::from("/verif")));
    let detail = format!(
        "a judged operation does not return: worker thread {} has consumed {} seconds of its own CPU time inside ONE guarded operation (operation number {} of that thread) without finishing it; the run is deterministic, replaying tier={} seed={} reaches the same operation",
        tid,
        gap_ticks / 100,
        events,
        tier,
        seed
    );
    let replays = root.join("replays");
    let _ = std::fs::create_dir_all(&replays);
    let path = replays.join(format!("{}-{}-{}-hang.json", id, tier, seed));
    let j = J::obj(vec![("property_id", J::s(id.clone())), ("tier", J::s(tier.clone())), ("seed", J::U(seed)), ("signature", J::s("does-not-terminate")), ("detail", J::s(detail.clone())), ("case", J::Null)]);
    let _ = std::fs::write(&path, j.to_string());
    let evd = J::O(vec![
        ("property_id".into(), J::s(id.clone())),
        ("tier".into(), J::s(tier.clone())),
        ("seed".into(), J::U(seed)),
        ("level".into(), J::s("exploration")),
        ("coverage".into(), J::O(vec![("evaluations".into(), J::U(events)), ("distinct_nontrivial".into(), J::U(0)), ("rule".into(), J::s("run aborted by the non-termination monitor; counts are those of the stuck worker thread only")), ("samples".into(), J::A(vec![J::s(detail.clone())]))])),
        ("assumptions".into(), J::A(vec![])),
        ("wall_s".into(), J::F(0.0)),
        ("violations".into(), J::U(1)),
        ("verdict".into(), J::s("violated")),
    ]);
    let _ = std::fs::create_dir_all(root.join("evidence"));
    let _ = std::fs::write(root.join("evidence").join(format!("{}.json", id)), evd.to_string());
    println!("VIOLATION property={} replay={}", id, path.display());
    println!("  signature=does-not-terminate detail={}", detail);
    std::process::exit(1);
}

/// called by the allocator when the live heap of the process crosses the ceiling of the tier (see allocmeter::set_ceiling)
pub fn report_runaway(live: u64, request: u64) -> ! {
    let (id, tier, seed, root) = RUN_INFO.get().cloned().unwrap_or(("C00".into(), "quick".into(), 1, PathBuf::from("/verif")));
    let detail = format!(
        "runaway memory: the live heap of the monitor process reached {} MiB (request of {} bytes) inside a judged operation - far beyond anything the {} tier builds or traverses; an operation on the code under test keeps allocating instead of returning (e.g. a traversal that never ends); the run is deterministic, replaying tier={} seed={} reaches the same operation",
        live >> 20,
        request,
        tier,
        tier,
        seed
    );
    let replays = root.join("replays");
    let _ = std::fs::create_dir_all(&replays);
    let path = replays.join(format!("{}-{}-{}-runaway.json", id, tier, seed));
    let j = J::obj(vec![("property_id", J::s(id.clone())), ("tier", J::s(tier.clone())), ("seed", J::U(seed)), ("signature", J::s("does-not-terminate")), ("detail", J::s(detail.clone())), ("case", J::Null)]);
    let _ = std::fs::write(&path, j.to_string());
    let evd = J::O(vec![
        ("property_id".into(), J::s(id.clone())),
        ("tier".into(), J::s(tier.clone())),
        ("seed".into(), J::U(seed)),
        ("level".into(), J::s("exploration")),
        ("coverage".into(), J::O(vec![("evaluations".into(), J::U(0)), ("distinct_nontrivial".into(), J::U(0)), ("rule".into(), J::s("run aborted by the runaway-memory monitor")), ("samples".into(), J::A(vec![J::s(detail.clone())]))])),
        ("assumptions".into(), J::A(vec![])),
        ("wall_s".into(), J::F(0.0)),
        ("violations".into(), J::U(1)),
        ("verdict".into(), J::s("violated")),
    ]);
    let _ = std::fs::create_dir_all(root.join("evidence"));
    let _ = std::fs::write(root.join("evidence").join(format!("{}.json", id)), evd.to_string());
    println!("VIOLATION property={} replay={}", id, path.display());
    println!("  signature=does-not-terminate detail={}", detail);
    std::process::exit(1);
}

fn guard_event() {
    MY_SLOT.with(|s| {
        let mut s = s.borrow_mut();
        if s.is_none() {
            let tid = std::fs::read_link("/proc/thread-self").ok().and_then(|p| p.file_name().and_then(|n| n.to_str().and_then(|n| n.parse::<u64>().ok()))).unwrap_or(0);
            let slot = std::sync::Arc::new(WorkerSlot { tid, events: std::sync::atomic::AtomicU64::new(0), done: std::sync::atomic::AtomicBool::new(false) });
            if tid != 0 {
                if let Ok(mut w) = WORKERS.lock() {
                    w.push(slot.clone());
                }
            }
            *s = Some(slot);
        }
        if let Some(slot) = s.as_ref() {
            slot.events.fetch_add(1, std::sync::atomic::Ordering::Relaxed);
        }
    });
}

/// a worker thread that is about to exit tells the monitor so (its tid may be recycled)
pub fn worker_done() {
    MY_SLOT.with(|s| {
        if let Some(slot) = s.borrow().as_ref() {
            slot.done.store(true, std::sync::atomic::Ordering::Relaxed);
        }
    });
}

/// run `f`, turning a panic into Err(message); quiet (the hook stores the message)
pub fn guard<T, F: FnOnce() -> T>(f: F) -> Result<T, String> {
    guard_event();
    let r = guard_inner(f);
    guard_event();
    r
}

fn guard_inner<T, F: FnOnce() -> T>(f: F) -> Result<T, String> {
    match panic::catch_unwind(AssertUnwindSafe(f)) {
        Ok(v) => Ok(v),
        Err(_) => Err(LAST_PANIC.with(|p| p.borrow().clone())),
    }
}

pub struct Spec<'a> {
    pub level: &'a str,
    pub rule: &'a str,
    pub assumptions: Vec<String>,
    /// counters that must reach a minimum for the run to be conclusive (input-side coverage floors)
    pub floors: Vec<(&'a str, u64)>,
    pub exhaustive: Option<bool>,
}

fn known_findings(ctx: &Ctx) -> Vec<(String, String)> {
    // lines: `finding: property=<id> sig=<sig> <description>`
    let mut out = vec![];
    if let Ok(text) = std::fs::read_to_string(ctx.root.join("known-findings.txt")) {
        for line in text.lines() {
            let line = line.trim();
            if !line.starts_with("finding:") {
                continue;
            }
            let mut prop = None;
            let mut sig = None;
            for tok in line.split_whitespace() {
                if let Some(p) = tok.strip_prefix("property=") {
                    prop = Some(p.to_string());
                }
                if let Some(s) = tok.strip_prefix("sig=") {
                    sig = Some(s.to_string());
                }
            }
            if let (Some(p), Some(s)) = (prop, sig) {
                if p == ctx.id {
                    out.push((s, line.to_string()));
                }
            }
        }
    }
    out
}

/// Write evidence, print verdict lines, return the process exit code (0 held, 1 violation, 2 inconclusive).
pub fn finish(ctx: &Ctx, ev: Ev, spec: Spec) -> i32 {
    let known = known_findings(ctx);
    let mut code = 0;
    let mut printed_known: HashSet<String> = HashSet::new();
    let mut unlisted = 0u64;
    let replays = ctx.root.join("replays");
    let mut harness_faults: Vec<String> = vec![];
    for (i, v) in ev.violations.iter().enumerate() {
        // a failed self-check of the machinery says nothing about the code under test: inconclusive, never a violation
        if v.sig.starts_with("harness-") {
            harness_faults.push(format!("{}: {}", v.sig, v.detail));
            continue;
        }
        if let Some((_, line)) = known.iter().find(|(s, _)| *s == v.sig) {
            if printed_known.insert(v.sig.clone()) {
                println!("KNOWN-FINDING: property={} {} [{}]", ctx.id, v.detail, line);
            }
            continue;
        }
        unlisted += 1;
        let _ = std::fs::create_dir_all(&replays);
        let path = replays.join(format!("{}-{}-{}-{}.json", ctx.id, ctx.tier.name(), ctx.seed, i));
        let j = J::obj(vec![
            ("property_id", J::s(ctx.id)),
            ("tier", J::s(ctx.tier.name())),
            ("seed", J::U(ctx.seed)),
            ("signature", J::s(v.sig.clone())),
            ("detail", J::s(v.detail.clone())),
            ("case", v.case.clone()),
        ]);
        let _ = std::fs::write(&path, j.to_string());
        println!("VIOLATION property={} replay={}", ctx.id, path.display());
        println!("  signature={} detail={}", v.sig, v.detail);
        code = 1;
    }
    let listed_extra = ev.nviol.saturating_sub(ev.violations.len() as u64);
    if listed_extra > 0 {
        println!("  (+{} further violating cases not written out)", listed_extra);
    }
    // floors
    let mut missed = vec![];
    for (k, min) in &spec.floors {
        if ev.get(k) < *min {
            missed.push(format!("{}={}<{}", k, ev.get(k), min));
        }
    }
    if code == 0 && !harness_faults.is_empty() {
        println!("INCONCLUSIVE property={} self-check of the machinery failed: {}", ctx.id, harness_faults[0]);
        code = 2;
    }
    if code == 0 && !missed.is_empty() {
        println!("INCONCLUSIVE property={} coverage floor(s) not reached: {}", ctx.id, missed.join(" "));
        code = 2;
    }
    let wall = ctx.start.elapsed().as_secs_f64();
    let mut cov: Vec<(String, J)> = vec![
        ("evaluations".into(), J::U(ev.evaluations.max(0))),
        ("distinct_nontrivial".into(), J::U((ev.fps.len() as u64 + ev.distinct_extra).min(ev.evaluations))),
        ("rule".into(), J::s(spec.rule)),
        ("samples".into(), J::A(ev.samples.clone())),
    ];
    if let Some(x) = spec.exhaustive {
        cov.push(("exhaustive".into(), J::Bool(x)));
    }
    cov.push(("max_live_heap_mib_of_the_monitor_process".into(), J::U(crate::allocmeter::MAX_LIVE.load(std::sync::atomic::Ordering::Relaxed) >> 20)));
    cov.push(("max_cpu_seconds_without_a_guard_event_on_any_worker".into(), J::F(MAX_GAP_TICKS.load(std::sync::atomic::Ordering::Relaxed) as f64 / 100.0)));
    cov.push(("observed".into(), J::O(ev.counters.iter().map(|(k, v)| (k.clone(), J::U(*v))).collect())));
    for (k, v) in &ev.notes {
        cov.push((k.clone(), v.clone()));
    }
    cov.push(("floors".into(), J::O(spec.floors.iter().map(|(k, v)| (k.to_string(), J::U(*v))).collect())));
    cov.push(("known_findings_matched".into(), J::U(printed_known.len() as u64)));
    let verdict = match code {
        0 => "held",
        1 => "violated",
        _ => "inconclusive",
    };
    let j = J::O(vec![
        ("property_id".into(), J::s(ctx.id)),
        ("tier".into(), J::s(ctx.tier.name())),
        ("seed".into(), J::U(ctx.seed)),
        ("level".into(), J::s(spec.level)),
        ("coverage".into(), J::O(cov)),
        ("assumptions".into(), J::A(spec.assumptions.iter().map(|s| J::s(s.clone())).collect())),
        ("wall_s".into(), J::F(wall)),
        ("violations".into(), J::U(if code == 1 { unlisted + listed_extra } else { 0 })),
        ("verdict".into(), J::s(verdict)),
    ]);
    let evdir = ctx.root.join("evidence");
    let _ = std::fs::create_dir_all(&evdir);
    let evpath = evdir.join(format!("{}.json", ctx.id));
    if let Err(e) = std::fs::write(&evpath, j.to_string()) {
        println!("INCONCLUSIVE property={} cannot write evidence: {}", ctx.id, e);
        return 2;
    }
    println!(
        "{} property={} tier={} seed={} evaluations={} distinct_nontrivial={} violations={} wall_s={:.1}",
        verdict.to_uppercase(),
        ctx.id,
        ctx.tier.name(),
        ctx.seed,
        ev.evaluations,
        (ev.fps.len() as u64 + ev.distinct_extra).min(ev.evaluations),
        ev.nviol,
        wall
    );
    code
}
