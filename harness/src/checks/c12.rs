//! C12 - Equivalent sub-automata are shared: minimal whenever the node cache suffices.
//! Oracle: harness-side trie + bottom-up signature minimisation; node graph read by the independent decoder.
//! The premise "no eviction" is OBSERVED through hook H2.
use crate::build::{self, GEOMS};
use crate::ctx::{finish, guard, Ctx, Ev, Spec};
use crate::gen::{self, Kv};
use crate::json::J;
use crate::refdec::{self, Decoded};
use crate::rng::Rng;
use fst::raw::Builder;
use std::collections::{BTreeMap, HashMap};

#[derive(Default)]
struct TNode {
    kids: BTreeMap<u8, usize>,
    fin: bool,
}

/// (number of trie nodes, number of right-language classes = states of the minimal acyclic DFA)
fn trie_stats(keys: &[&[u8]]) -> (usize, usize) {
    let mut t: Vec<TNode> = vec![TNode::default()];
    for k in keys {
        let mut n = 0;
        for &b in *k {
            n = match t[n].kids.get(&b) {
                Some(&c) => c,
                None => {
                    t.push(TNode::default());
                    let c = t.len() - 1;
                    t[n].kids.insert(b, c);
                    c
                }
            };
        }
        t[n].fin = true;
    }
    // bottom-up classes; children always have larger indices than parents, so reverse order works
    let mut class_of = vec![0usize; t.len()];
    let mut classes: HashMap<(bool, Vec<(u8, usize)>), usize> = HashMap::new();
    for i in (0..t.len()).rev() {
        let sig = (t[i].fin, t[i].kids.iter().map(|(b, c)| (*b, class_of[*c])).collect::<Vec<_>>());
        let next = classes.len();
        class_of[i] = *classes.entry(sig).or_insert(next);
    }
    (t.len(), classes.len())
}

/// (reachable node addresses incl. the sentinel, signature classes among them)
fn graph_stats(d: &Decoded) -> (usize, usize) {
    // addresses increase along reverse topological order: targets are always smaller than sources
    let mut class_of: HashMap<usize, usize> = HashMap::new();
    let mut classes: HashMap<(bool, u64, Vec<(u8, u64, usize)>), usize> = HashMap::new();
    let mut sentinel_reachable = d.root == 0;
    for (_, n) in &d.nodes {
        if n.trans.iter().any(|t| t.2 == 0) {
            sentinel_reachable = true;
        }
    }
    if sentinel_reachable {
        classes.insert((true, 0, vec![]), 0);
        class_of.insert(0, 0);
    }
    for (addr, n) in &d.nodes {
        let sig = (n.is_final, n.final_out, n.trans.iter().map(|t| (t.0, t.1, class_of[&t.2])).collect::<Vec<_>>());
        let next = classes.len();
        let c = *classes.entry(sig).or_insert(next);
        class_of.insert(*addr, c);
    }
    (d.nodes.len() + sentinel_reachable as usize, classes.len())
}

/// several builders filled SIDE BY SIDE on one thread (keys handed out round-robin), with unrelated complete builds
/// (Map::from_iter, a SetBuilder) happening in between: each of them must still share its own equivalent sub-automata
fn judge_interleaved(kvs: &[Kv], ev: &mut Ev) {
    build::stats_reset();
    let res = guard(|| {
        let mut bs: Vec<Builder<Vec<u8>>> = kvs.iter().map(|_| Builder::memory()).collect();
        let longest = kvs.iter().map(|k| k.len()).max().unwrap_or(0);
        for i in 0..longest {
            for (j, kv) in kvs.iter().enumerate() {
                if let Some((k, v)) = kv.get(i) {
                    bs[j].insert(k, *v).unwrap();
                }
            }
            if i % 5 == 2 {
                let _ = fst::Map::from_iter(vec![("q", 1u64), ("qa", 2), ("r", 3)]);
                let mut sb = fst::SetBuilder::memory();
                let _ = sb.insert("side");
                let _ = sb.into_inner();
            }
        }
        bs.into_iter().map(|b| b.into_inner().unwrap()).collect::<Vec<Vec<u8>>>()
    });
    let st = build::stats();
    match res {
        Err(p) => ev.violate("build-panic", format!("interleaved builders: {}", p), J::Null),
        Ok(all) => {
            for (bytes, kv) in all.iter().zip(kvs.iter()) {
                ev.count("builds:side-by-side-on-one-thread");
                assess(kv, (10_000, 2), "one of several builders filled side by side on one thread", bytes, &st, ev);
            }
        }
    }
}

fn judge(kv: &Kv, geom: (usize, usize), tag: &str, ev: &mut Ev) -> Option<(usize, usize, usize)> {
    build::stats_reset();
    let bytes = match guard(|| {
        let mut b = Builder::verif_new_with_cache(Vec::new(), 0, geom.0, geom.1).unwrap();
        for (k, v) in kv {
            b.insert(k, *v).unwrap();
        }
        b.into_inner().unwrap()
    }) {
        Ok(b) => b,
        Err(p) => {
            ev.violate("build-panic", format!("{}", p), J::Null);
            return None;
        }
    };
    let st = build::stats();
    assess(kv, geom, tag, &bytes, &st, ev)
}

fn assess(kv: &Kv, geom: (usize, usize), tag: &str, bytes: &[u8], st: &build::Stats, ev: &mut Ev) -> Option<(usize, usize, usize)> {
    let st = *st;
    ev.add("hook:cache-hits", st.hits);
    ev.add("hook:cache-misses", st.misses);
    ev.add("hook:cache-evictions", st.evictions);
    let d = match refdec::decode(bytes) {
        Ok(d) => d,
        Err(e) => {
            ev.violate("undecodable", format!("independent decoder rejects the build: {}", e), J::Null);
            return None;
        }
    };
    let keys: Vec<&[u8]> = kv.iter().map(|(k, _)| &k[..]).collect();
    let (trie, minimal) = trie_stats(&keys);
    let (nodes, classes) = graph_stats(&d);
    let is_set = kv.iter().all(|(_, v)| *v == 0);
    let descr = || {
        J::obj(vec![
            ("geometry", J::s(format!("{}x{}", geom.0, geom.1))),
            ("what", J::s(tag)),
            ("nkeys", J::U(kv.len() as u64)),
            ("entries", J::A(kv.iter().take(24).map(|(k, v)| J::A(vec![J::bytes(k), J::U(*v)])).collect())),
            ("emitted_nodes", J::U(nodes as u64)),
            ("distinct_signatures", J::U(classes as u64)),
            ("trie_nodes", J::U(trie as u64)),
            ("minimal_dfa_states", J::U(minimal as u64)),
            ("evictions", J::U(st.evictions)),
        ])
    };
    ev.eval(None);
    // for every input: never more nodes than the prefix trie
    if nodes > trie {
        ev.violate("more-nodes-than-trie", format!("{}: {} nodes emitted but the keys' prefix trie has only {}", tag, nodes, trie), descr());
    }
    let cache_present = geom.0 * geom.1 > 0;
    // the premise "no eviction" is OBSERVED through hook H2; if the counters stayed silent although nodes were emitted
    // (a tree whose cache no longer feeds them), the premise is unobservable and minimality is not judged
    let hook_alive = st.lookups + st.hits + st.misses > 0 || d.nodes.is_empty();
    if cache_present && !hook_alive {
        ev.count("builds:premise-unobservable(hook counters silent)");
    } else if st.evictions == 0 && cache_present {
        ev.count("builds:premise-no-eviction-observed");
        if nodes != classes {
            ev.violate("duplicate-nodes", format!("{}: no eviction happened, yet {} emitted nodes fall into only {} equivalence classes (equivalent nodes were emitted twice)", tag, nodes, classes), descr());
        }
        if is_set {
            ev.count("builds:sets-compared-with-minimal-dfa");
            if nodes != minimal {
                ev.violate("not-minimal", format!("{}: no eviction happened, yet the set compiled to {} nodes while its minimal acyclic DFA has {} states", tag, nodes, minimal), descr());
            }
        }
    } else {
        ev.count("builds:excluded-from-minimality(evictions-or-no-cache)");
    }
    Some((trie, nodes, minimal))
}

pub fn run(ctx: &Ctx) -> i32 {
    let u = gen::universe(b"ab", 3);
    let nmask = 1u64 << u.len();
    let ev = ctx.par(|shard, n, ev| {
        let mut rng = Rng::new(ctx.seed, 0xC12 + shard as u64);
        for mask in 0..nmask {
            if (mask as usize) % n != shard {
                continue;
            }
            let keys = gen::subset(&u, mask);
            // as a set, default geometry
            let kv: Kv = keys.iter().map(|k| (k.clone(), 0)).collect();
            ev.fps.insert(crate::rng::fnv_u64(0x5e7, mask));
            judge(&kv, GEOMS[0], "set, default geometry", ev);
            // as maps with two value assignments, rotating geometries
            for s in 0..2 {
                let style = [1usize, 6, 4, 2][(mask as usize + s * 2) % 4];
                let kv = gen::assign(keys.clone(), style, &mut rng);
                let g = if s == 0 { GEOMS[0] } else { GEOMS[(mask as usize) % GEOMS.len()] };
                ev.fps.insert(crate::rng::fnv_u64(0x3a9 + s as u64, mask));
                judge(&kv, g, "map", ev);
            }
            if mask % 4099 == 1000 {
                ev.sample(J::obj(vec![("keys", J::A(keys.iter().map(|k| J::bytes(k)).collect())), ("built_as", J::s("set (default geometry) and two maps (default + rotating geometry)"))]));
            }
        }
        // builders filled side by side on one thread
        for g in 0..ctx.tier.pick(300, 3000) {
            if g % n != shard {
                continue;
            }
            let mut r = Rng::new(ctx.seed, 0x51de + g as u64);
            let k = 2 + r.usize(2);
            let kvs: Vec<Kv> = (0..k)
                .map(|j| {
                    let alpha = gen::alphabet(&mut r);
                    let nk = 20 + r.usize(400);
                    let keys = gen::random_keys(&mut r, nk, &alpha, 5);
                    if j == 0 {
                        keys.into_iter().map(|k| (k, 0)).collect()
                    } else {
                        gen::assign(keys, 1, &mut r)
                    }
                })
                .collect();
            ev.fps.insert(crate::rng::fnv_u64(0x51de, g as u64));
            ev.eval(None);
            judge_interleaved(&kvs, ev);
        }
        if !ctx.quick() {
            let u3 = gen::universe(b"abc", 2);
            for mask in 0..(1u64 << u3.len()) {
                if (mask as usize) % n != shard {
                    continue;
                }
                let kv: Kv = gen::subset(&u3, mask).into_iter().map(|k| (k, 0)).collect();
                ev.fps.insert(crate::rng::fnv_u64(0xabc2, mask));
                judge(&kv, GEOMS[0], "set abc2, default geometry", ev);
            }
        }
        // equivalent WIDE sub-automata under different prefixes: {p}{byte} for several prefixes p and the same N bytes
        // (N over the fan-out palette, i.e. with and without index table) must be emitted once
        for (fi, &fo) in [2usize, 31, 32, 33, 40, 63, 64, 65, 200, 255, 256].iter().enumerate() {
            for variant in 0..6 {
                if (fi * 6 + variant) % n != shard {
                    continue;
                }
                let mut r = Rng::new(ctx.seed, 0x12_b1d + (fi * 6 + variant) as u64);
                let mut bytes: Vec<u8> = (0..=255u8).collect();
                for i in 0..256 {
                    let j = i + r.usize(256 - i);
                    bytes.swap(i, j);
                }
                bytes.truncate(fo);
                bytes.sort();
                let prefixes: Vec<Vec<u8>> = match variant % 3 {
                    0 => vec![b"a".to_vec(), b"b".to_vec()],
                    1 => vec![b"a".to_vec(), b"ab".to_vec(), b"b".to_vec(), b"ba".to_vec()],
                    _ => vec![vec![0x00], vec![0x00, 0x00, 0x01], vec![0xff]],
                };
                let mut kv: Kv = vec![];
                for (pi, p) in prefixes.iter().enumerate() {
                    for (bi, b) in bytes.iter().enumerate() {
                        let mut k = p.clone();
                        k.push(*b);
                        // maps: value = per-prefix base + per-byte weight, so the wide nodes stay equivalent once the
                        // common prefix of the outputs has moved onto the incoming transition; every other map variant
                        // uses weights that are multiples of 2^33 (outputs far beyond u32 on the shared node)
                        let unit: u64 = if variant == 4 { 1 << 33 } else { 3 };
                        let v = if variant < 3 { 0 } else { (pi as u64 + 1) * 1_000_000 + (bi as u64 % 7) * unit };
                        kv.push((k, v));
                    }
                }
                kv.sort();
                kv.dedup_by(|a, b| a.0 == b.0);
                ev.fps.insert(crate::rng::fnv_u64(0x12_b1d, (fi * 6 + variant) as u64));
                judge(&kv, GEOMS[0], "equivalent wide nodes under several prefixes", ev);
                ev.count("builds:duplicated-wide-subautomata");
            }
        }
        // a FINAL node that is wide (a key that is a prefix of many others) and carries a residual output, surrounded by keys that
        // share a plain suffix before and after it: whatever the builder recycles from the wide node must not keep the equal suffix
        // nodes apart
        for (fi, &fo) in [2usize, 31, 32, 33, 34, 40, 63, 64, 65, 100, 200, 255].iter().enumerate() {
            for variant in 0..6usize {
                if (fi * 6 + variant + 3) % n != shard {
                    continue;
                }
                let suffix: &[u8] = [&b"xy"[..], &b"xyz"[..], &b"x"[..]][variant % 3];
                let stem_value = [5u64, 1 << 33, 0][variant / 2 % 3];
                let mut kv: Kv = vec![];
                kv.push(([&b"0"[..], suffix].concat(), 0));
                kv.push((b"a".to_vec(), stem_value));
                for c in 0..fo {
                    kv.push((vec![b'a', (0x21 + c) as u8], if variant % 2 == 0 { 0 } else { c as u64 }));
                }
                kv.push(([&b"b"[..], suffix].concat(), 0));
                kv.push(([&b"c"[..], suffix].concat(), if variant % 2 == 0 { 0 } else { 9 }));
                kv.push(([&b"c"[..], suffix, suffix].concat(), 10));
                kv.push(([&b"d"[..], suffix].concat(), 0));
                kv.sort();
                ev.fps.insert(crate::rng::fnv_u64(0xf1a1, (fi * 6 + variant) as u64));
                judge(&kv, GEOMS[0], "a wide final node with a residual output between keys sharing a suffix", ev);
                ev.count("builds:wide-final-node-between-shared-suffixes");
            }
        }
        // the agent-found witness of round 7: a node whose 64-bit cache digest has an all-zero upper half (2^-32 per node)
        {
            let mut kv: Kv = vec![];
            for p in [b'x', b'y'].iter() {
                for c in b"48IORVai".iter() {
                    kv.push((vec![*p, *c], 0));
                }
            }
            kv.sort();
            if shard == 2 % n {
                judge(&kv, GEOMS[0], "a node whose cache digest has a zero upper half", ev);
            }
        }
        // sharing that must survive distance and history: (1) a few tiny states reused by many WIDE nodes across a file of
        // hundreds of KB (targets > 64 KiB back), (2) common suffixes separated by long runs of unique nodes
        for variant in 0..ctx.tier.pick(9, 36) {
            if variant % n != shard {
                continue;
            }
            let mut r = Rng::new(ctx.seed, 0x12_fa7 + variant as u64);
            let mut keys: Vec<Vec<u8>> = vec![];
            let what;
            if variant % 3 == 2 {
                what = "keys sharing suffixes of 200..1200 bytes under different prefixes";
                let suffix: Vec<u8> = (0..(200 + r.usize(1000))).map(|_| b'a' + r.below(3) as u8).collect();
                for p in 0..(2 + r.usize(4)) {
                    let mut k = vec![b'A' + p as u8, b'0' + (p % 3) as u8];
                    if p % 2 == 0 {
                        k.push(b'x');
                    }
                    k.extend_from_slice(&suffix);
                    keys.push(k);
                }
            } else if variant % 2 == 0 {
                what = "tiny states reused by many wide nodes far back";
                let ntails = 4 + r.usize(20);
                let nwide = 60 + r.usize(120);
                let fan = [256usize, 200, 64, 65][variant / 2 % 4];
                for i in 0..nwide {
                    for b in 0..fan {
                        // pseudo-random tail per (wide node, byte): all wide nodes are distinct, the tails are few
                        let j = (crate::rng::mix((i as u64) << 16 | b as u64 | (variant as u64) << 40) % ntails as u64) as usize;
                        keys.push(vec![b'A' + (i / 200) as u8, (i % 200) as u8, b as u8, b'x', j as u8]);
                    }
                }
            } else {
                what = "common suffixes separated by long unique keys";
                let suffix: Vec<u8> = b"-common-suffix".to_vec();
                let nruns = 2 + r.usize(4);
                for run in 0..=nruns {
                    let mut k = vec![b'a' + (run * 3) as u8];
                    k.extend_from_slice(&suffix);
                    keys.push(k);
                    if run < nruns {
                        // one or several long keys of unique bytes between two occurrences of the suffix
                        for u in 0..(1 + r.usize(3)) {
                            let mut k = vec![b'a' + (run * 3) as u8 + 1, u as u8];
                            let l = [100usize, 520, 700, 1500, 3000][r.usize(5)];
                            k.extend((0..l).map(|_| r.next() as u8));
                            keys.push(k);
                        }
                    }
                }
            }
            keys.sort();
            keys.dedup();
            let kv: Kv = keys.into_iter().map(|k| (k, 0)).collect();
            ev.fps.insert(crate::rng::fnv_u64(0x12_fa7, variant as u64));
            // a roomy cache (hook H1) keeps the premise "no eviction" true even for thousands of distinct nodes
            let jr = judge(&kv, (200_000, 2), what, ev);
            if std::env::var_os("C12_DEBUG").is_some() {
                eprintln!("variant {} {} nkeys={} (trie,nodes,minimal)={:?}", variant, what, kv.len(), jr);
            }
            ev.count("builds:far-back-and-history-shapes");
        }
        // many distinct WIDE nodes held by the cache at once (hundreds of thousands of transitions resident, no eviction in
        // a roomy cache), and then the whole group a second time under another first byte: every node of the second group
        // must be found again
        for variant in 0..ctx.tier.pick(3, 12) {
            if (variant + 5) % n != shard {
                continue;
            }
            let mut r = Rng::new(ctx.seed, 0x12_b16 + variant as u64);
            let (nwide, fan) = [(700usize, 256usize), (1500, 100), (2400, 40), (900, 200)][variant % 4];
            let nwide = nwide + r.usize(100);
            let valued = variant % 2 == 0;
            let mut kv: Kv = vec![];
            for g in 0..2u8 {
                for i in 0..nwide {
                    for c in 0..fan {
                        let c = (c * 255 / (fan - 1)) as u8;
                        // block i differs from all others by one value (maps) or by one missing child (sets)
                        if !valued && c as usize == 1 + i % 200 && (i / 200) as u8 == c % 13 {
                            continue;
                        }
                        let val = if valued && c == 1 { i as u64 + 1 } else { 0 };
                        let mut k = vec![g, (i / 256) as u8, (i % 256) as u8, c];
                        if !valued {
                            k.push((i % 7) as u8);
                            k.push((i / 7 % 11) as u8);
                            k.push((i / 77) as u8);
                        }
                        kv.push((k, val));
                    }
                }
            }
            kv.sort();
            kv.dedup_by(|a, b| a.0 == b.0);
            ev.fps.insert(crate::rng::fnv_u64(0x12_b16, variant as u64));
            judge(&kv, (200_000, 2), "hundreds of distinct wide nodes resident in the cache, then all of them again", ev);
            ev.count("builds:many-wide-nodes-resident-then-repeated");
        }
        // random sets/maps up to 3000 keys with heavy suffix sharing, all geometries
        let nrand = ctx.tier.pick(2000, 50_000);
        for i in 0..nrand {
            if i % n != shard {
                continue;
            }
            let mut r = Rng::new(ctx.seed, 0x12_0000 + i as u64);
            let alpha = gen::alphabet(&mut r);
            let nk = match r.below(3) {
                0 => r.usize(30),
                1 => r.usize(400),
                _ => r.usize(3000),
            };
            let ml = 2 + r.usize(7);
            let keys = gen::random_keys(&mut r, nk, &alpha, ml);
            let kv = gen::assign(keys, if i % 2 == 0 { 0 } else { [6usize, 1, 8, 2][i % 4] }, &mut r);
            // every 3rd build gets a roomy cache so that large random inputs are judged for minimality too
            let g = if i % 3 == 0 { (200_000, 2) } else { GEOMS[(i / 2) % GEOMS.len()] };
            ev.fps.insert(crate::rng::fnv_u64(0x12_0000, i as u64));
            judge(&kv, g, "random", ev);
        }
        // corpora: most of the achievable sharing is realised
        let names = ["words-10000", "wiki-urls-10000", "words-100000"];
        for (ci, name) in names.iter().enumerate() {
            if ci % n != shard || (ctx.quick() && ci == 2 && false) {
                continue;
            }
            let keys = gen::corpus(name);
            if keys.is_empty() {
                continue;
            }
            let kv: Kv = keys.into_iter().map(|k| (k, 0)).collect();
            ev.fps.insert(crate::rng::fnv(name.as_bytes()));
            if let Some((trie, nodes, minimal)) = judge(&kv, GEOMS[0], name, ev) {
                let achievable = trie.saturating_sub(minimal).max(1);
                let realised = trie.saturating_sub(nodes);
                let ratio = realised as f64 / achievable as f64;
                ev.note(&format!("sharing_ratio:{}", name), J::F(ratio));
                ev.note(&format!("nodes:{}", name), J::s(format!("trie={} emitted={} minimal={}", trie, nodes, minimal)));
                ev.count("corpora-judged");
                if ratio <= 0.5 {
                    ev.violate("little-sharing", format!("{}: only {:.1}% of the achievable sharing is realised (trie {} nodes, emitted {}, minimal {})", name, ratio * 100.0, trie, nodes, minimal), J::s(*name));
                }
            }
        }
    });
    finish(
        ctx,
        ev,
        Spec {
            level: "exploration",
            rule: "one evaluation = one build whose emitted node graph (read by the independent decoder) is compared with harness-side oracles: (1) always: #reachable nodes <= #nodes of the keys' prefix trie; (2) when the cache counters (hook H2) show zero evictions and the cache has cells: no two reachable nodes have the same signature (final, final output, [(byte, output, class(child))]) and, for sets, #nodes == #states of the minimal acyclic DFA computed by bottom-up right-language classes on the trie; (3) corpora as sets: (trie - emitted)/(trie - minimal) > 0.5; builds: ALL 32768 subsets of {a,b}^<=3 as sets (default geometry) and as two maps each (rotating geometries 10000x2, 0x0, 1x1, 1x3, 7x2, 64x2), the same wide fan under several prefixes, tiny states reused by 60-180 wide nodes across files of hundreds of KB, 700-2500 pairwise different nodes of fan-out 40-256 resident in a roomy cache at once (10^5-10^6 transitions, no eviction) followed by all of them a second time, common suffixes separated by runs of 100-3000 unique nodes, suffixes of 200-1200 bytes shared under different prefixes, equivalent wide nodes whose outputs exceed 2^33, random sets/maps to 3000 keys, thorough also all subsets of {a,b,c}^<=2; builds with evictions or without cache are counted and excluded from (2); non-trivial = every build; distinct = by fingerprint",
            assumptions: vec!["the premise 'no eviction' is taken from the cfg-guarded counters in registry.rs; a tree that replaces the cache implementation keeps them at 0, i.e. claims never to evict".into(), "'most of the achievable sharing' is read as a ratio > 0.5; measured ratios are recorded".into()],
            floors: vec![("builds:premise-no-eviction-observed", 1000), ("builds:sets-compared-with-minimal-dfa", 1000), ("builds:excluded-from-minimality(evictions-or-no-cache)", 10), ("corpora-judged", 2), ("builds:duplicated-wide-subautomata", 60), ("builds:far-back-and-history-shapes", 9), ("builds:side-by-side-on-one-thread", 300), ("builds:wide-final-node-between-shared-suffixes", 60), ("builds:many-wide-nodes-resident-then-repeated", 3)],
            exhaustive: Some(true),
        },
    )
}
