use crate::ctx::{Ctx, Tier};

pub mod c01;
pub mod c02;
pub mod c03;
pub mod c04;
pub mod c05;
pub mod c06;
pub mod c09;

pub fn dispatch(id: &str, tier: Tier, seed: u64, extra: &[String]) -> i32 {
    let _ = extra;
    match id {
        "C01" => c01::run(&Ctx::new("C01", tier, seed)),
        "C02" => c02::run(&Ctx::new("C02", tier, seed)),
        "C03" => c03::run(&Ctx::new("C03", tier, seed)),
        "C04" => c04::run(&Ctx::new("C04", tier, seed)),
        "C05" => c05::run(&Ctx::new("C05", tier, seed)),
        "C06" => c06::run(&Ctx::new("C06", tier, seed)),
        "C09" => c09::run(&Ctx::new("C09", tier, seed)),
        _ => {
            eprintln!("unknown check {}", id);
            2
        }
    }
}
