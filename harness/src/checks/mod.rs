use crate::ctx::{Ctx, Tier};

pub mod c01;
pub mod c02;
pub mod c03;
pub mod c04;
pub mod c05;
pub mod c06;
pub mod c07;
pub mod c08;
pub mod c09;
pub mod c10;
pub mod c11;
pub mod c12;
pub mod c13;
pub mod c14;
pub mod c15;
pub mod c16;
pub mod c17;
pub mod c18;
pub mod c19;
pub mod c20;

pub fn dispatch(id: &str, tier: Tier, seed: u64, extra: &[String]) -> i32 {
    let _ = extra;
    match id {
        "C01" => c01::run(&Ctx::new("C01", tier, seed)),
        "C02" => c02::run(&Ctx::new("C02", tier, seed)),
        "C03" => c03::run(&Ctx::new("C03", tier, seed)),
        "C04" => c04::run(&Ctx::new("C04", tier, seed)),
        "C05" => c05::run(&Ctx::new("C05", tier, seed)),
        "C06" => c06::run(&Ctx::new("C06", tier, seed)),
        "C07" => c07::run(&Ctx::new("C07", tier, seed)),
        "C08" => c08::run(&Ctx::new("C08", tier, seed)),
        "C07-storm" => c07::storm_child(seed, extra.get(0).and_then(|s| s.parse().ok()).unwrap_or(100_000)),
        "C09" => c09::run(&Ctx::new("C09", tier, seed)),
        "C10" => c10::run(&Ctx::new("C10", tier, seed)),
        "golden-write" => c10::golden_write(&Ctx::new("C10", tier, seed)),
        "C11" => c11::run(&Ctx::new("C11", tier, seed)),
        "C12" => c12::run(&Ctx::new("C12", tier, seed)),
        "C13" => c13::run(&Ctx::new("C13", tier, seed)),
        "C14" => c14::run(&Ctx::new("C14", tier, seed)),
        "C15" => c15::run(&Ctx::new("C15", tier, seed)),
        "C15-child" => c15::child(seed),
        "C15-starved" => c15::starved_child(seed),
        "C16" => c16::run(&Ctx::new("C16", tier, seed)),
        "C17" => c17::run(&Ctx::new("C17", tier, seed)),
        "C18" => c18::run(&Ctx::new("C18", tier, seed)),
        "C19" => c19::run(&Ctx::new("C19", tier, seed)),
        "C20" => c20::run(&Ctx::new("C20", tier, seed)),
        "C20-native" => c20::native_child(seed, tier),
        _ => {
            eprintln!("unknown check {}", id);
            2
        }
    }
}
