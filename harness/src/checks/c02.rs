//! C02 - Point lookups agree with the inserted map for every probe.
use crate::build::{self, Front, GEOMS, MAP_FRONTS};
use crate::ctx::{finish, guard, Ctx, Ev, Spec};
use crate::gen::{self, Case, Kv};
use crate::json::J;
use crate::refdec::{self, Decoded};
use crate::rng::Rng;
use fst::raw::Fst;
use fst::{Map, Set};

fn model_get(kv: &Kv, p: &[u8]) -> Option<u64> {
    kv.binary_search_by(|(k, _)| k.as_slice().cmp(p)).ok().map(|i| kv[i].1)
}

/// classify a probe by walking the independently decoded node graph
fn classify(d: &Decoded, p: &[u8]) -> &'static str {
    let mut a = d.root;
    for (i, &b) in p.iter().enumerate() {
        if a == 0 {
            return "miss:extension-of-leaf";
        }
        let n = &d.nodes[&a];
        match n.trans.iter().find(|t| t.0 == b) {
            Some(t) => a = t.2,
            None => {
                let _ = i;
                return if n.has_index { "miss:at-indexed-node" } else if n.trans.len() > 1 { "miss:at-linear-scan-node" } else { "miss:at-single-transition-node" };
            }
        }
    }
    let (fin, indexed_parent) = if a == 0 { (true, false) } else { (d.nodes[&a].is_final, false) };
    let _ = indexed_parent;
    if fin {
        if p.is_empty() {
            "hit:empty-key"
        } else {
            "hit"
        }
    } else if p.is_empty() {
        "miss:empty-key"
    } else {
        "miss:prefix-not-final"
    }
}

struct Readers<'a> {
    raw: Fst<&'a [u8]>,
    raw_owned: Fst<Vec<u8>>,
    map: Map<&'a [u8]>,
    set: Set<Vec<u8>>,
}

fn probe(r: &Readers, kv: &Kv, p: &[u8]) -> Result<(), String> {
    let want = model_get(kv, p);
    let sp = || crate::json::show_bytes(p);
    let g = r.raw.get(p).map(|o| o.value());
    if g != want {
        return Err(format!("raw::Fst<&[u8]>::get({}) = {:?}, model {:?}", sp(), g, want));
    }
    if r.raw.contains_key(p) != want.is_some() {
        return Err(format!("raw::Fst::contains_key({}) = {}, model {:?}", sp(), !want.is_some(), want));
    }
    let g = r.raw_owned.get(p).map(|o| o.value());
    if g != want {
        return Err(format!("raw::Fst<Vec>::get({}) = {:?}, model {:?}", sp(), g, want));
    }
    let g = r.map.get(p);
    if g != want {
        return Err(format!("Map::get({}) = {:?}, model {:?}", sp(), g, want));
    }
    if r.map.contains_key(p) != want.is_some() {
        return Err(format!("Map::contains_key({}) != model {:?}", sp(), want));
    }
    if r.set.contains(p) != want.is_some() {
        return Err(format!("Set::contains({}) != model {:?}", sp(), want));
    }
    Ok(())
}

pub fn probe_all(bytes: &[u8], case: &Case, rng: &mut Rng, ev: &mut Ev, tag: &str) {
    let kv = &case.kv;
    let d = if bytes.len() > (8 << 20) {
        None // huge-delta family: too many nodes for the map-based decoder; probes are still judged
    } else {
        match refdec::decode(bytes) {
            Ok(d) => Some(d),
            Err(_) => None,
        }
    };
    let readers = match (Fst::new(bytes), Fst::new(bytes.to_vec()), Map::new(bytes), Set::new(bytes.to_vec())) {
        (Ok(raw), Ok(raw_owned), Ok(map), Ok(set)) => Readers { raw, raw_owned, map, set },
        _ => {
            ev.violate("open-failed", format!("{}: a built FST does not open", tag), case.describe());
            return;
        }
    };
    let small = kv.len() <= 400;
    let mut nviol = 0;
    let fresh_fst = ev.fps.insert(crate::rng::fnv_add(case.fp(), tag.as_bytes()));
    let mut seen: std::collections::HashSet<u64> = std::collections::HashSet::new();
    let mut doit = |p: &[u8], ev: &mut Ev| {
        if nviol > 3 {
            return;
        }
        ev.eval(None);
        if fresh_fst && seen.insert(crate::rng::fnv(p)) {
            ev.distinct_extra += 1;
        }
        if let Some(d) = &d {
            ev.count(&format!("probe:{}", classify(d, p)));
        }
        if let Err(e) = probe(&readers, kv, p) {
            nviol += 1;
            ev.violate(
                "lookup-mismatch",
                format!("{}: {}", tag, e),
                J::obj(vec![("case", case.describe()), ("probe", J::bytes(p)), ("probe_hex", J::s(crate::json::hex(&p[..p.len().min(64)])))]),
            );
        }
    };
    doit(&[], ev);
    let mut prev: &[u8] = &[];
    let exts: [u8; 6] = [0x00, 0xff, b'e', 0x80, b'G', 0x01];
    let mut buf: Vec<u8> = vec![];
    for (ki, (k, _)) in kv.iter().enumerate() {
        doit(k, ev);
        let lcp = prev.iter().zip(k.iter()).take_while(|(a, b)| a == b).count();
        let sampled = small || ki % 16 == 0;
        // new prefixes of this key (not shared with the previous key)
        let plens: Vec<usize> = if k.len() > 300 { vec![lcp.min(k.len()), k.len() / 2, k.len() - 1, k.len()] } else { (lcp.min(k.len())..=k.len()).collect() };
        for l in plens {
            if l < k.len() {
                doit(&k[..l], ev);
            }
            if !sampled && l != k.len() {
                continue;
            }
            for &b in &exts {
                buf.clear();
                buf.extend_from_slice(&k[..l]);
                buf.push(b);
                doit(&buf, ev);
            }
            buf.clear();
            buf.extend_from_slice(&k[..l]);
            buf.push(rng.next() as u8);
            doit(&buf, ev);
            // all 256 continuations at nodes with an index table / many children, and at the root
            let many = match &d {
                Some(d) => {
                    let mut a = d.root;
                    let mut ok = true;
                    for &b in &k[..l] {
                        if a == 0 {
                            ok = false;
                            break;
                        }
                        match d.nodes[&a].trans.iter().find(|t| t.0 == b) {
                            Some(t) => a = t.2,
                            None => {
                                ok = false;
                                break;
                            }
                        }
                    }
                    ok && a != 0 && (d.nodes[&a].trans.len() > 24 || l == 0)
                }
                None => l == 0,
            };
            if many && (small || ki % 64 == 0 || l == 0 && ki == 0) {
                for b in 0..=255u8 {
                    buf.clear();
                    buf.extend_from_slice(&k[..l]);
                    buf.push(b);
                    doit(&buf, ev);
                }
            }
        }
        // single-byte substitutions
        if !k.is_empty() {
            let positions: Vec<usize> = if small && k.len() <= 64 { (0..k.len()).collect() } else { vec![rng.usize(k.len()), k.len() - 1, 0] };
            for pos in positions {
                for delta in [1u8, 255u8, (rng.next() as u8) | 1].iter() {
                    buf.clear();
                    buf.extend_from_slice(k);
                    buf[pos] = buf[pos].wrapping_add(*delta);
                    doit(&buf, ev);
                }
            }
        }
        prev = k;
    }
    // random strings over the case's bytes and over all bytes
    let alpha: Vec<u8> = {
        let mut a: Vec<u8> = kv.iter().flat_map(|(k, _)| k.iter().cloned()).take(4000).collect();
        a.sort();
        a.dedup();
        if a.is_empty() {
            a.push(b'a');
        }
        a
    };
    for i in 0..100 {
        let l = rng.usize(6);
        let p = if i % 2 == 0 { rng.bytes(l, &alpha) } else { (0..l).map(|_| rng.next() as u8).collect() };
        doit(&p, ev);
    }
}

pub fn run(ctx: &Ctx) -> i32 {
    let thin = ctx.tier.pick(2, 1);
    let fams = gen::pool(ctx.tier, ctx.seed, thin);
    let ev = ctx.par(|shard, n, ev| {
        gen::for_shard(&fams, shard, n, |case| {
            let mut rng = Rng::new(ctx.seed, case.fp());
            let g = GEOMS[case.index % GEOMS.len()];
            let mut fronts = vec![Front::RawGeom(g.0, g.1), MAP_FRONTS[case.index % MAP_FRONTS.len()]];
            if case.family == "duplicated-wide-fans" || case.family == "cache-digest-collision" {
                // what these families probe happens inside the node cache: every hook geometry
                for &(r, c) in GEOMS.iter() {
                    fronts.push(Front::RawGeom(r, c));
                }
            }
            let nf = if case.kv.len() > 20_000 || case.family.ends_with("-subsets") || case.family == "huge-delta" { 1 } else { fronts.len() };
            for &front in fronts.iter().take(nf) {
                let tag = format!("{:?}", front);
                match guard(|| build::build(front, &case.kv)) {
                    Ok(Ok(bytes)) => {
                        if let Err(p) = guard(|| probe_all(&bytes, case, &mut rng, ev, &tag)) {
                            ev.violate("lookup-panic", format!("{}: a point lookup panicked: {}", tag, p), case.describe());
                        }
                        ev.count("fsts-probed");
                    }
                    Ok(Err(e)) => ev.violate("build-error", format!("{}: {}", tag, e), case.describe()),
                    Err(p) => ev.violate("build-panic", format!("{}: {}", tag, p), case.describe()),
                }
            }
            if case.index == 1 {
                ev.sample(case.describe());
            }
        });
    });
    let mut ev = ev;
    // containers that did not come from a builder call of the harness: Default (an empty map / set like any other) and the
    // conversions between the three container types - probed with the empty string, every single byte and random strings
    {
        let mut rng = Rng::new(ctx.seed, 0xDEFA);
        let r = guard(|| -> Result<u64, String> {
            let m: Map<Vec<u8>> = Map::default();
            let s: Set<Vec<u8>> = Set::default();
            let mut probes: Vec<Vec<u8>> = vec![vec![]];
            probes.extend((0..=255u8).map(|b| vec![b]));
            for _ in 0..200 {
                let l = rng.usize(6);
                probes.push((0..l).map(|_| rng.next() as u8).collect());
            }
            let fm: Fst<Vec<u8>> = Map::<Vec<u8>>::default().into_fst();
            let fs: Fst<Vec<u8>> = Set::<Vec<u8>>::default().into_fst();
            let m2: Map<Vec<u8>> = Map::from(Set::<Vec<u8>>::default().into_fst());
            let s2: Set<Vec<u8>> = Set::from(Map::<Vec<u8>>::default().into_fst());
            for p in &probes {
                if m.get(p).is_some() || m.contains_key(p) || m2.get(p).is_some() || m2.contains_key(p) {
                    return Err(format!("Map::default() reports the key {} although it is empty", crate::json::show_bytes(p)));
                }
                if s.contains(p) || s2.contains(p) {
                    return Err(format!("Set::default() reports the key {} although it is empty", crate::json::show_bytes(p)));
                }
                if fm.get(p).is_some() || fm.contains_key(p) || fs.get(p).is_some() || fs.contains_key(p) || m.as_fst().contains_key(p) || s.as_fst().contains_key(p) {
                    return Err(format!("the raw FST inside a Default container reports the key {}", crate::json::show_bytes(p)));
                }
            }
            Ok(probes.len() as u64 * 12)
        });
        match r {
            Ok(Ok(n)) => {
                ev.evaluations += n;
                ev.distinct_extra += n;
                ev.add("probe:default-containers", n);
            }
            Ok(Err(e)) => ev.violate("lookup-mismatch", e, J::s("Default containers")),
            Err(p) => ev.violate("lookup-panic", format!("Default containers: {}", p), J::s("Default containers")),
        }
    }
    // ONE container shared by many threads that look keys up and stream at the same time (Fst/Map/Set are Sync): whatever a reader
    // caches lazily inside the container must be safe to fill from several threads at once
    {
        let mut picked: Vec<Kv> = vec![];
        for f in &fams {
            if matches!(f.name, "fanout" | "random" | "fanout-x-width" | "duplicated-wide-fans" | "single-bytes") {
                for j in 0..3usize {
                    let c = (f.make)((j * 37 + ctx.seed as usize) % f.count.max(1));
                    if c.kv.len() <= 5000 && !c.kv.is_empty() {
                        picked.push(c.kv);
                    }
                }
            }
        }
        for (pi, kv) in picked.iter().enumerate() {
            let bytes = match guard(|| build::build(Front::MapInsert, kv)) {
                Ok(Ok(b)) => b,
                _ => continue,
            };
            let map = match Map::new(bytes) {
                Ok(m) => std::sync::Arc::new(m),
                Err(_) => continue,
            };
            let kv = std::sync::Arc::new(kv.clone());
            let results: Vec<Result<u64, String>> = std::thread::scope(|sc| {
                let hs: Vec<_> = (0..8usize)
                    .map(|t| {
                        let map = map.clone();
                        let kv = kv.clone();
                        sc.spawn(move || -> Result<u64, String> {
                            std::panic::catch_unwind(std::panic::AssertUnwindSafe(|| {
                                let mut n = 0u64;
                                for round in 0..3 {
                                    // every thread walks the keys in another order
                                    let len = kv.len();
                                    for i in 0..len {
                                        let (k, v) = &kv[(i * (2 * t + 1) + round * 7 + t * 13) % len];
                                        if map.get(k) != Some(*v) || !map.contains_key(k) {
                                            return Err(format!("thread {}: get({}) = {:?}, inserted with {}", t, crate::json::show_bytes(k), map.get(k), v));
                                        }
                                        let mut miss = k.clone();
                                        miss.push(0xfe);
                                        let want = kv.binary_search_by(|(x, _)| x.as_slice().cmp(&miss)).ok().map(|j| kv[j].1);
                                        if map.get(&miss) != want {
                                            return Err(format!("thread {}: get({}) = {:?}, model {:?}", t, crate::json::show_bytes(&miss), map.get(&miss), want));
                                        }
                                        n += 3;
                                    }
                                    if t % 2 == 0 {
                                        use fst::Streamer;
                                        let mut s = map.stream();
                                        let mut i = 0;
                                        while let Some((k, v)) = s.next() {
                                            if i >= len || k != &kv[i].0[..] || v != kv[i].1 {
                                                return Err(format!("thread {}: concurrent stream differs at entry {}", t, i));
                                            }
                                            i += 1;
                                        }
                                        if i != len {
                                            return Err(format!("thread {}: concurrent stream ended after {} of {} entries", t, i, len));
                                        }
                                        n += len as u64;
                                    }
                                }
                                Ok(n)
                            }))
                            .unwrap_or_else(|_| Err(format!("thread {} panicked", t)))
                        })
                    })
                    .collect();
                hs.into_iter().map(|h| h.join().unwrap_or_else(|_| Err("thread died".into()))).collect()
            });
            ev.count("fsts-shared-by-8-threads");
            for r in results {
                match r {
                    Ok(n) => {
                        ev.evaluations += n;
                        ev.distinct_extra += n / 8;
                    }
                    Err(e) => {
                        ev.violate("lookup-mismatch", format!("a Map shared by 8 threads (case {} of the sample): {}", pi, e), J::A(kv.iter().take(20).map(|(k, v)| J::A(vec![J::bytes(k), J::U(*v)])).collect()));
                        break;
                    }
                }
            }
        }
    }
    // lookups on FSTs written in history scenarios (long series of builds on one thread, builders migrating between threads)
    {
        let mut bad = 0;
        for (label, kv, res) in build::history_builds(ctx.seed + 1, ctx.tier.pick(6, 32), ctx.tier.pick(1200, 5000), ctx.tier.pick(300, 3000)) {
            ev.count("fsts-from-history-scenarios");
            let verdict: Result<u64, String> = match res {
                Err(e) => Err(format!("build failed: {}", e)),
                Ok(bytes) => guard(|| -> Result<u64, String> {
                    let f = Fst::new(&bytes[..]).map_err(|e| format!("does not open: {}", e))?;
                    let mut n = 0u64;
                    for (k, v) in &kv {
                        if f.get(k).map(|o| o.value()) != Some(*v) || !f.contains_key(k) {
                            return Err(format!("get({}) = {:?}, inserted with {}", crate::json::show_bytes(k), f.get(k).map(|o| o.value()), v));
                        }
                        n += 2;
                    }
                    // every string over the scenario alphabet up to length 3 that was NOT inserted
                    let alpha = [b'a', b'b', b'k', b'x', b'z', b'q'];
                    let mut probes: Vec<Vec<u8>> = vec![vec![]];
                    let mut layer: Vec<Vec<u8>> = vec![vec![]];
                    for _ in 0..3 {
                        let mut next = vec![];
                        for p in &layer {
                            for a in alpha.iter() {
                                let mut t = p.clone();
                                t.push(*a);
                                next.push(t);
                            }
                        }
                        probes.extend(next.iter().cloned());
                        layer = next;
                    }
                    for p in &probes {
                        let want = kv.binary_search_by(|(x, _)| x.as_slice().cmp(p)).ok().map(|j| kv[j].1);
                        if f.get(p).map(|o| o.value()) != want || f.contains_key(p) != want.is_some() {
                            return Err(format!("get({}) = {:?}, model {:?}", crate::json::show_bytes(p), f.get(p).map(|o| o.value()), want));
                        }
                        n += 2;
                    }
                    Ok(n)
                })
                .unwrap_or_else(|p| Err(format!("lookup panicked: {}", p))),
            };
            match verdict {
                Ok(n) => {
                    ev.evaluations += n;
                    ev.distinct_extra += n / 4;
                }
                Err(e) => {
                    if bad < 3 {
                        ev.violate("lookup-mismatch", format!("{}: {}", label, e), J::A(kv.iter().map(|(k, v)| J::A(vec![J::bytes(k), J::U(*v)])).collect()));
                    }
                    bad += 1;
                }
            }
        }
    }
    finish(
        ctx,
        ev,
        Spec {
            level: "exploration",
            rule: "one evaluation = one probe string looked up through raw::Fst<&[u8]>::get/contains_key, raw::Fst<Vec>::get, Map::get/contains_key and Set::contains and compared with the model; probes per FST: every key, every proper prefix, one-byte extensions {00,ff,'e',80,'G',01,random} of every prefix, all 256 continuations at the root and at wide nodes, +-1/random substitutions at every position (small FSTs) or sampled positions, the empty string, 100 random strings; the containers made by Default and the From/into_fst conversions between Map, Set and raw::Fst are probed with the empty string, every single byte and random strings; FSTs: the shared case pool (quick: every 2nd exhaustive/random case); non-trivial = every probe; distinct = distinct (FST content, probe)",
            assumptions: vec!["probe classes (probe:*) are derived by walking the independently decoded node graph".into()],
            floors: vec![
                ("probe:hit", 1000),
                ("probe:default-containers", 1000),
                ("fsts-from-history-scenarios", 5000),
                ("fsts-shared-by-8-threads", 8),
                ("probe:hit:empty-key", 100),
                ("probe:miss:empty-key", 100),
                ("probe:miss:prefix-not-final", 1000),
                ("probe:miss:extension-of-leaf", 1000),
                ("probe:miss:at-linear-scan-node", 1000),
                ("probe:miss:at-indexed-node", 1000),
                ("probe:miss:at-single-transition-node", 1000),
            ],
            exhaustive: Some(false),
        },
    )
}
