//! C01 - Build-then-enumerate round trip is exact.
//! Oracle: the inserted ordered map. Every enumeration API is compared element-wise.
use crate::build::{self, Front, GEOMS, MAP_FRONTS, SET_FRONTS};
use crate::ctx::{finish, guard, Ctx, Ev, Spec};
use crate::gen::{self, Case, Kv};
use crate::json::J;
use fst::raw::{Builder, Fst};
use fst::{IntoStreamer, Map, Set, Streamer};

fn mism(what: &str, i: usize, got: Option<(&[u8], u64)>, want: Option<&(Vec<u8>, u64)>) -> String {
    format!(
        "{}: entry {} got {:?} want {:?}",
        what,
        i,
        got.map(|(k, v)| (crate::json::show_bytes(k), v)),
        want.map(|(k, v)| (crate::json::show_bytes(k), *v))
    )
}

/// compare a streamer yielding (key, value) with the model
macro_rules! cmp_kv {
    ($what:expr, $stream:expr, $want:expr, |$item:ident| $conv:expr) => {{
        let mut s = $stream;
        let mut i = 0usize;
        let mut res: Result<(), String> = Ok(());
        loop {
            let got = s.next().map(|$item| $conv);
            let want = $want.get(i);
            match (got, want) {
                (None, None) => break,
                (Some((k, v)), Some((wk, wv))) if k == &wk[..] && v == *wv => {}
                (g, w) => {
                    res = Err(mism($what, i, g, w));
                    break;
                }
            }
            i += 1;
        }
        res
    }};
}

pub fn check_enumeration(bytes: &[u8], want: &Kv, all_apis: bool, rot: usize) -> Result<(), String> {
    let fst = Fst::new(bytes).map_err(|e| format!("Fst::new failed: {}", e))?;
    if fst.len() != want.len() {
        return Err(format!("Fst::len {} != {}", fst.len(), want.len()));
    }
    if fst.is_empty() != want.is_empty() {
        return Err(format!("Fst::is_empty {} but {} keys", fst.is_empty(), want.len()));
    }
    cmp_kv!("Fst::stream", fst.stream(), want, |it| (it.0, it.1.value()))?;
    let n = 10;
    for api in 0..n {
        if !all_apis && api != rot % n {
            continue;
        }
        match api {
            0 => cmp_kv!("IntoStreamer for &Fst", (&fst).into_stream(), want, |it| (it.0, it.1.value()))?,
            1 => {
                let m = Map::new(bytes).map_err(|e| format!("Map::new: {}", e))?;
                if m.len() != want.len() || m.is_empty() != want.is_empty() {
                    return Err(format!("Map::len/is_empty {} {}", m.len(), m.is_empty()));
                }
                cmp_kv!("Map::stream", m.stream(), want, |it| (it.0, it.1))?;
                cmp_kv!("IntoStreamer for &Map", (&m).into_stream(), want, |it| (it.0, it.1))?;
            }
            2 => {
                let m = Map::new(bytes).map_err(|e| format!("Map::new: {}", e))?;
                let mut ks = m.keys();
                let mut vs = m.values();
                for (i, (wk, wv)) in want.iter().enumerate() {
                    match ks.next() {
                        Some(k) if k == &wk[..] => {}
                        g => return Err(format!("Map::keys entry {} got {:?}", i, g.map(crate::json::show_bytes))),
                    }
                    match vs.next() {
                        Some(v) if v == *wv => {}
                        g => return Err(format!("Map::values entry {} got {:?} want {}", i, g, wv)),
                    }
                }
                if ks.next().is_some() || vs.next().is_some() {
                    return Err("Map::keys/values yields extra entries".into());
                }
            }
            3 => {
                let m = Map::new(bytes).map_err(|e| format!("Map::new: {}", e))?;
                if &m.stream().into_byte_vec() != want {
                    return Err("map Stream::into_byte_vec differs".into());
                }
                if m.stream().into_byte_keys() != want.iter().map(|(k, _)| k.clone()).collect::<Vec<_>>() {
                    return Err("map Stream::into_byte_keys differs".into());
                }
                if m.stream().into_values() != want.iter().map(|(_, v)| *v).collect::<Vec<_>>() {
                    return Err("map Stream::into_values differs".into());
                }
            }
            4 => {
                let s = Set::new(bytes).map_err(|e| format!("Set::new: {}", e))?;
                if s.len() != want.len() || s.is_empty() != want.is_empty() {
                    return Err(format!("Set::len/is_empty {} {}", s.len(), s.is_empty()));
                }
                let zero: Kv = want.iter().map(|(k, _)| (k.clone(), 0)).collect();
                cmp_kv!("Set::stream", s.stream(), &zero, |it| (it, 0u64))?;
                cmp_kv!("IntoStreamer for &Set", (&s).into_stream(), &zero, |it| (it, 0u64))?;
                if s.stream().into_bytes() != want.iter().map(|(k, _)| k.clone()).collect::<Vec<_>>() {
                    return Err("set Stream::into_bytes differs".into());
                }
            }
            5 => {
                if &fst.stream().into_byte_vec() != want {
                    return Err("raw Stream::into_byte_vec differs".into());
                }
                if fst.stream().into_byte_keys() != want.iter().map(|(k, _)| k.clone()).collect::<Vec<_>>() {
                    return Err("raw Stream::into_byte_keys differs".into());
                }
                if fst.stream().into_values() != want.iter().map(|(_, v)| *v).collect::<Vec<_>>() {
                    return Err("raw Stream::into_values differs".into());
                }
            }
            6 => {
                // str conversions on valid UTF-8 content
                if want.iter().all(|(k, _)| std::str::from_utf8(k).is_ok()) {
                    let w: Vec<(String, u64)> = want.iter().map(|(k, v)| (String::from_utf8(k.clone()).unwrap(), *v)).collect();
                    match fst.stream().into_str_vec() {
                        Ok(g) if g == w => {}
                        _ => return Err("raw Stream::into_str_vec differs".into()),
                    }
                    let m = Map::new(bytes).map_err(|e| format!("Map::new: {}", e))?;
                    match m.stream().into_str_keys() {
                        Ok(g) if g == w.iter().map(|(k, _)| k.clone()).collect::<Vec<_>>() => {}
                        _ => return Err("map Stream::into_str_keys differs".into()),
                    }
                    let s = Set::new(bytes).map_err(|e| format!("Set::new: {}", e))?;
                    match s.stream().into_strs() {
                        Ok(g) if g == w.iter().map(|(k, _)| k.clone()).collect::<Vec<_>>() => {}
                        _ => return Err("set Stream::into_strs differs".into()),
                    }
                }
            }
            7 => {
                // owned container + range() with no bounds + search(AlwaysMatch)
                let f2 = Fst::new(bytes.to_vec()).map_err(|e| format!("Fst::new(Vec): {}", e))?;
                cmp_kv!("Fst::range unbounded", f2.range().into_stream(), want, |it| (it.0, it.1.value()))?;
                cmp_kv!("Fst::search(AlwaysMatch)", f2.search(fst::automaton::AlwaysMatch).into_stream(), want, |it| (it.0, it.1.value()))?;
            }
            8 => {
                // From<Fst> conversions and as_fst
                let m: Map<&[u8]> = Map::from(Fst::new(bytes).map_err(|e| format!("{}", e))?);
                cmp_kv!("Map::from(Fst).stream", m.stream(), want, |it| (it.0, it.1))?;
                cmp_kv!("Map::as_fst().stream", m.as_fst().stream(), want, |it| (it.0, it.1.value()))?;
            }
            _ => {
                // a stream polled again after it ended must not resurrect entries
                let mut s = fst.stream();
                while let Some(_) = s.next() {}
                if s.next().is_some() {
                    return Err("stream yields an entry after it ended".into());
                }
            }
        }
    }
    Ok(())
}

fn front_name(f: Front) -> String {
    match f {
        Front::RawGeom(r, c) => format!("RawGeom({}x{})", r, c),
        other => format!("{:?}", other),
    }
}

fn one(case: &Case, front: Front, ev: &mut Ev, decode_cov: bool) {
    let name = front_name(front);
    build::stats_reset();
    let built = guard(|| build::build(front, &case.kv));
    let st = build::stats();
    let bytes = match built {
        Err(p) => {
            ev.violate("build-panic", format!("building through {} panicked: {}", name, p), case.describe());
            return;
        }
        Ok(Err(e)) => {
            ev.violate("build-error", format!("building a strictly increasing sequence through {} failed: {}", name, e), case.describe());
            return;
        }
        Ok(Ok(b)) => b,
    };
    ev.count(&format!("front:{}", name));
    if st.evictions > 0 {
        ev.count("hook:builds-with-evictions");
    }
    if st.hits > 0 {
        ev.count("hook:builds-with-cache-hits");
    }
    let small = case.kv.len() <= 64 && case.family != "huge-delta";
    let fp = crate::rng::fnv_add(case.fp(), name.as_bytes());
    ev.eval(if case.kv.is_empty() { None } else { Some(fp) });
    match guard(|| check_enumeration(&bytes, &case.kv, small, case.index)) {
        Err(p) => ev.violate("enumerate-panic", format!("enumeration of the {} build panicked: {}", name, p), case.describe()),
        Ok(Err(e)) => ev.violate("roundtrip-mismatch", format!("front={} {}", name, e), case.describe()),
        Ok(Ok(())) => {}
    }
    if decode_cov {
        match crate::refdec::decode(&bytes) {
            Ok(d) => build::node_histogram(&d, ev),
            Err(_) => ev.count("cov:refdec-rejected(not judged here, see C09)"),
        }
    }
}

pub fn check_case(case: &Case, ev: &mut Ev) {
    // (families that exist because of what happens INSIDE the node cache go through every hook geometry)
    let exhaustive_family = case.family.ends_with("-subsets") || case.family == "duplicated-wide-fans" || case.family == "cache-digest-collision";
    let big = case.kv.len() > 50_000;
    let mut fronts: Vec<Front> = vec![];
    if exhaustive_family {
        for &(r, c) in GEOMS.iter() {
            fronts.push(Front::RawGeom(r, c));
        }
    } else {
        fronts.push(Front::RawGeom(GEOMS[0].0, GEOMS[0].1));
        if !big {
            let g = GEOMS[1 + case.index % (GEOMS.len() - 1)];
            fronts.push(Front::RawGeom(g.0, g.1));
            let g = GEOMS[1 + (case.index / 5 + 2) % (GEOMS.len() - 1)];
            fronts.push(Front::RawGeom(g.0, g.1));
        }
    }
    if case.set {
        fronts.push(SET_FRONTS[case.index % SET_FRONTS.len()]);
        if !big {
            fronts.push(SET_FRONTS[(case.index / 3 + 1) % SET_FRONTS.len()]);
        }
    }
    fronts.push(MAP_FRONTS[case.index % MAP_FRONTS.len()]);
    if !big {
        fronts.push(MAP_FRONTS[(case.index / 7 + 4) % MAP_FRONTS.len()]);
    }
    if case.family == "huge-delta" {
        // only the default geometry and one wrapper: each build emits 17 million nodes
        fronts.truncate(1);
        fronts.push(Front::MapInsert);
        for f in fronts.iter() {
            one(case, *f, ev, false);
        }
        ev.count("cov:builds-with-4-byte-root-deltas(by construction)");
        ev.count(&format!("family:{}", case.family));
        return;
    }
    for (i, f) in fronts.iter().enumerate() {
        one(case, *f, ev, i == 0 || i == 1);
    }
    if case.index % 997 == 0 {
        ev.sample(case.describe());
    }
    ev.count(&format!("family:{}", case.family));
}

pub fn run(ctx: &Ctx) -> i32 {
    let fams = gen::pool(ctx.tier, ctx.seed, 1);
    let ev = ctx.par(|shard, n, ev| {
        gen::for_shard(&fams, shard, n, |case| check_case(case, ev));
    });
    let mut ev = ev;
    // the containers made by Default are empty maps/sets like any other
    {
        ev.eval(Some(0xdefa));
        ev.count("front:Default");
        let r = guard(|| -> Result<(), String> {
            let m: Map<Vec<u8>> = Map::default();
            let s: Set<Vec<u8>> = Set::default();
            let empty: Kv = vec![];
            check_enumeration(m.as_fst().as_bytes(), &empty, true, 0).map_err(|e| format!("Map::default(): {}", e))?;
            check_enumeration(s.as_fst().as_bytes(), &empty, true, 0).map_err(|e| format!("Set::default(): {}", e))?;
            if m.len() != 0 || !m.is_empty() || m.stream().next().is_some() || m.get("").is_some() || m.contains_key("") {
                return Err("Map::default() is not an empty map".into());
            }
            if s.len() != 0 || !s.is_empty() || s.stream().next().is_some() || s.contains("") {
                return Err("Set::default() is not an empty set".into());
            }
            Ok(())
        });
        match r {
            Ok(Ok(())) => {}
            Ok(Err(e)) => ev.violate("roundtrip-mismatch", e, J::s("Default")),
            Err(p) => ev.violate("enumerate-panic", format!("Default containers: {}", p), J::s("Default")),
        }
    }
    // scenarios in which the HISTORY of a thread matters: long series of small builds on one fresh thread (node shapes recur at
    // other addresses, every 7th builder abandoned), and builders that migrate between threads
    {
        let nser = ctx.tier.pick(12, 64);
        let per = ctx.tier.pick(1500, 6000);
        let results: Vec<Vec<(Kv, Result<Vec<u8>, String>)>> = std::thread::scope(|sc| {
            // ... one of them with more than 2^16 builds (counters of "builders seen by this thread" may be 16 bits wide)
            let hs: Vec<_> = (0..nser).map(|i| sc.spawn(move || build::series_on_one_thread(ctx.seed * 1000 + i as u64, if i == 0 { 140_000 } else { per }))).collect();
            hs.into_iter().map(|h| h.join().unwrap_or_default()).collect()
        });
        let mut bad = 0;
        for (si, series) in results.iter().enumerate() {
            for (bi, (kv, res)) in series.iter().enumerate() {
                ev.eval(None);
                ev.count("history:builds-in-long-series-on-one-thread");
                let verdict = match res {
                    Ok(bytes) => guard(|| check_enumeration(bytes, kv, false, bi)).unwrap_or_else(|p| Err(format!("enumeration panicked: {}", p))),
                    Err(e) => Err(format!("build failed: {}", e)),
                };
                if let Err(e) = verdict {
                    if bad < 3 {
                        ev.violate("roundtrip-mismatch", format!("build #{} of a series of {} small builds on one thread: {}", bi, series.len(), e), J::obj(vec![("series", J::U(si as u64)), ("position_in_series", J::U(bi as u64)), ("entries", J::A(kv.iter().map(|(k, v)| J::A(vec![J::bytes(k), J::U(*v)])).collect()))]));
                    }
                    bad += 1;
                }
            }
        }
        let nmig = ctx.tier.pick(400, 4000);
        let mut bad = 0;
        for m in 0..nmig {
            let (p, q) = (m % 7, 1 + (m / 7) % 9);
            let builds = build::migration(ctx.seed * 7919 + m as u64, p, q);
            for (bi, (kv, res)) in builds.iter().enumerate() {
                ev.eval(None);
                ev.count("history:builds-around-a-builder-migrating-between-threads");
                let verdict = match res {
                    Ok(bytes) => guard(|| check_enumeration(bytes, kv, false, bi)).unwrap_or_else(|p| Err(format!("enumeration panicked: {}", p))),
                    Err(e) => Err(format!("build failed: {}", e)),
                };
                if let Err(e) = verdict {
                    if bad < 3 {
                        ev.violate("roundtrip-mismatch", format!("migration scenario (thread P: {} builds, then a half-filled builder moves to a fresh thread Q which finishes it and builds {} more): build #{}: {}", p, q, bi, e), J::obj(vec![("p", J::U(p as u64)), ("q", J::U(q as u64)), ("build", J::U(bi as u64)), ("entries", J::A(kv.iter().map(|(k, v)| J::A(vec![J::bytes(k), J::U(*v)])).collect()))]));
                    }
                    bad += 1;
                }
            }
        }
        ev.distinct_extra += (nser * per / 2 + nmig) as u64;
    }
    if ctx.tier == crate::ctx::Tier::Thorough && std::env::var_os("VERIF_SKIP_4GIB").is_none() {
        huge_4gib(ctx, &mut ev);
    }
    ev.note("geometries", J::A(GEOMS.iter().map(|g| J::s(format!("{}x{}", g.0, g.1))).collect()));
    let mut floors = build::structural_floors(ctx.tier == crate::ctx::Tier::Thorough);
    floors.push(("history:builds-in-long-series-on-one-thread", 140_000));
    floors.push(("history:builds-around-a-builder-migrating-between-threads", 2000));
    finish(
        ctx,
        ev,
        Spec {
            level: "exploration",
            rule: "(history scenarios: series of 1500 small builds (one of them a sparse series of 140000 builds in which three marker maps sharing a node shape recur every 256 builds) on one fresh thread with every 7th builder abandoned half-way, and builders that migrate half-filled from a thread with p finished builds to a fresh thread which then runs q builds of its own - every build of a scenario is judged) one evaluation = one (key/value sequence, builder front end / cache geometry) build whose bytes are reopened and streamed through the enumeration APIs and compared element-wise with the inserted ordered map; cases: ALL subsets of {a,b}^<=3 x 3 value styles x 6 cache geometries, fan-out palette {0,1,2,31,32,33,63,64,65,255,256} x depth x finality x output shapes, all 256 byte values, keys up to 70000 bytes, corpora, random maps, bulk maps sized for 1..3 (quick) / 1..4 (thorough) byte address deltas, a two-key FST whose root needs 4-byte deltas, a fan-out x output-width grid, dense product sets, (thorough) one FST larger than 4 GiB with a suffix re-used beyond the 4 GiB mark; non-trivial = at least one key; distinct = distinct (content, front end) fingerprints",
            assumptions: vec![
                "oracle = BTreeMap-ordered input sequence; comparison is on keys, values, order and multiplicity".into(),
                "structural coverage classes (cov:*) are computed by the harness' independent decoder, not by the reader under test".into(),
                "hook:* counters come from the cfg-guarded cache counters and are recorded only".into(),
            ],
            floors,
            exhaustive: Some(false),
        },
    )
}


/// thorough only: one FST larger than 4 GiB (addresses beyond u32), with a suffix that is first emitted past the 4 GiB
/// mark and then re-used from the node cache. Keys are regenerated from the seed instead of being kept in memory.
fn huge_4gib(ctx: &Ctx, ev: &mut Ev) {
    const CHUNK: usize = 64 << 20;
    const NBIG: usize = 66; // 66 x 64 MiB of two-byte nodes > 4 GiB
    let fill = |i: usize, buf: &mut Vec<u8>| {
        buf.clear();
        buf.push(0x80 + i as u8);
        let mut x = crate::rng::mix(ctx.seed ^ (i as u64) << 32);
        while buf.len() < CHUNK {
            x = x.wrapping_mul(0x9E3779B97F4A7C15).wrapping_add(1);
            // bytes >= 0x80 are not "common inputs": every node takes two bytes
            for s in 0..8 {
                buf.push(0x80 | (x >> (8 * s)) as u8);
            }
        }
    };
    let tail: Vec<u8> = (0..200).map(|j| 0x80 | crate::rng::mix(ctx.seed + j) as u8).collect();
    let r = guard(|| -> Result<(), String> {
        let mut b = Builder::new(Vec::with_capacity(5usize << 30)).map_err(|e| e.to_string())?;
        let mut buf: Vec<u8> = Vec::with_capacity(CHUNK + 16);
        for i in 0..NBIG {
            fill(i, &mut buf);
            b.insert(&buf, 1000 + i as u64).map_err(|e| e.to_string())?;
        }
        let mark = b.bytes_written();
        for j in 1..=3u8 {
            let mut k = vec![0xf0, j];
            k.extend_from_slice(&tail);
            b.insert(&k, 7_000_000 + j as u64).map_err(|e| e.to_string())?;
        }
        let bytes = b.into_inner().map_err(|e| e.to_string())?;
        if mark < (1u64 << 32) {
            return Err(format!("harness: only {} bytes before the shared tails", mark));
        }
        let f = Fst::new(&bytes[..]).map_err(|e| e.to_string())?;
        if f.len() != NBIG + 3 {
            return Err(format!("len() = {} for {} keys", f.len(), NBIG + 3));
        }
        for j in 1..=3u8 {
            let mut k = vec![0xf0, j];
            k.extend_from_slice(&tail);
            let got = f.get(&k).map(|o| o.value());
            if got != Some(7_000_000 + j as u64) {
                return Err(format!("get(key #{} sharing a suffix that lies beyond the 4 GiB mark) = {:?}, want {}", j, got, 7_000_000 + j as u64));
            }
        }
        for i in [0usize, NBIG / 2, NBIG - 1].iter() {
            fill(*i, &mut buf);
            if f.get(&buf).map(|o| o.value()) != Some(1000 + *i as u64) {
                return Err(format!("get(64 MiB key #{}) wrong", i));
            }
        }
        // full stream: count, order, lengths, values, first/last bytes
        let mut s = f.stream();
        let mut n = 0usize;
        while let Some((k, v)) = s.next() {
            let ok = if n < NBIG { k.len() == buf.capacity().min(k.len()) && k[0] == 0x80 + n as u8 && v.value() == 1000 + n as u64 && k.len() >= CHUNK } else { k.len() == 202 && k[1] == (n - NBIG + 1) as u8 && &k[2..] == &tail[..] && v.value() == 7_000_000 + (n - NBIG + 1) as u64 };
            if !ok {
                return Err(format!("streamed entry #{} is wrong (key length {}, value {})", n, k.len(), v.value()));
            }
            n += 1;
        }
        if n != NBIG + 3 {
            return Err(format!("stream yields {} entries, want {}", n, NBIG + 3));
        }
        f.verify().map_err(|e| format!("verify() on the 4 GiB FST: {}", e))?;
        Ok(())
    });
    ev.eval(Some(0x4_6_1_b));
    ev.count("cov:fst-larger-than-4GiB");
    match r {
        Ok(Ok(())) => {}
        Ok(Err(e)) => ev.violate("roundtrip-mismatch", format!("FST larger than 4 GiB: {}", e), J::s("66 keys of 64 MiB + 3 keys sharing a 200-byte suffix first emitted beyond the 4 GiB mark")),
        Err(p) => ev.violate("enumerate-panic", format!("FST larger than 4 GiB: {}", p), J::s("66 keys of 64 MiB + 3 keys sharing a suffix beyond the 4 GiB mark")),
    }
}
