//! C03 - Range streams return exactly the keys within the bounds, in order.
//! Oracle: model filter. Online monitor (hook H3): stack / key-buffer lock step after every next().
use crate::build::{self, Front};
use crate::ctx::{finish, guard, Ctx, Ev, Spec};
use crate::gen::{self, Kv};
use crate::json::J;
use crate::rangeq::{self, Hi, Lo};
use crate::rng::Rng;
use crate::with_bounds;
use fst::automaton::AlwaysMatch;
use fst::raw::Fst;
use fst::{IntoStreamer, Map, Set, Streamer};

fn lo_kinds(b: &[u8]) -> [Lo; 2] {
    [Lo::Ge(b.to_vec()), Lo::Gt(b.to_vec())]
}
fn hi_kinds(b: &[u8]) -> [Hi; 2] {
    [Hi::Le(b.to_vec()), Hi::Lt(b.to_vec())]
}

fn desc(kv: &Kv, lo: &Lo, hi: &Hi, api: &str) -> J {
    J::obj(vec![
        ("api", J::s(api)),
        ("query", J::s(rangeq::show_q(lo, hi))),
        ("nkeys", J::U(kv.len() as u64)),
        ("entries", J::A(kv.iter().take(20).map(|(k, v)| J::A(vec![J::bytes(k), J::U(*v)])).collect())),
    ])
}

struct Opened<'a> {
    raw: Fst<&'a [u8]>,
    map: Map<&'a [u8]>,
    set: Set<&'a [u8]>,
}

fn query(o: &Opened, kv: &Kv, lo: &Lo, hi: &Hi, rot: usize, ev: &mut Ev, hooks: &mut u64) -> bool {
    let want = rangeq::expected(kv, lo, hi, &|_| true);
    ev.eval(None);
    ev.count(rangeq::lower_class(kv, lo));
    ev.count(rangeq::upper_class(kv, hi));
    let fail = |ev: &mut Ev, api: &str, msg: String| {
        ev.violate("range-mismatch", format!("{} {}: {}", api, rangeq::show_q(lo, hi), msg), desc(kv, lo, hi, api));
    };
    // monitored raw stream (search_with_state(AlwaysMatch) == range)
    match guard(|| rangeq::monitored(&o.raw, AlwaysMatch, lo, hi, &|_| (), hooks)) {
        Err(p) => {
            ev.violate("range-panic", format!("range stream panicked: {} ({})", p, rangeq::show_q(lo, hi)), desc(kv, lo, hi, "raw"));
            return false;
        }
        Ok(Err(e)) => {
            ev.violate("range-mismatch", format!("{} ({})", e, rangeq::show_q(lo, hi)), desc(kv, lo, hi, "raw search_with_state"));
            return false;
        }
        Ok(Ok((got, breach))) => {
            let same = got.len() == want.len() && got.iter().zip(want.iter()).all(|(g, w)| g.0 == w.0 && g.1 == w.1);
            if !same {
                fail(ev, "raw::Fst::search_with_state(AlwaysMatch)", format!("got {:?} want {:?}{}", got.iter().map(|g| (crate::json::show_bytes(&g.0), g.1)).take(20).collect::<Vec<_>>(), want.iter().map(|w| (crate::json::show_bytes(&w.0), w.1)).take(20).collect::<Vec<_>>(), breach.map(|b| format!(" [hook H3 diagnosis: {}]", b)).unwrap_or_default()));
                return false;
            }
            if breach.is_some() {
                ev.count("hook:invariant-breach-with-correct-output(recorded, not judged)");
            }
        }
    }
    let r = guard(|| -> Result<(), String> {
        match rot % 3 {
            0 => {
                let got = with_bounds!(o.raw.range(), lo, hi).into_stream().into_byte_vec();
                if got.len() != want.len() || !got.iter().zip(want.iter()).all(|(g, w)| g.0 == w.0 && g.1 == w.1) {
                    return Err(format!("Fst::range got {} entries want {}", got.len(), want.len()));
                }
            }
            1 => {
                let mut s = with_bounds!(o.map.range(), lo, hi).into_stream();
                let mut i = 0;
                while let Some((k, v)) = s.next() {
                    if i >= want.len() || k != &want[i].0[..] || v != want[i].1 {
                        return Err(format!("Map::range entry {} = ({}, {})", i, crate::json::show_bytes(k), v));
                    }
                    i += 1;
                }
                if i != want.len() {
                    return Err(format!("Map::range ended after {} of {} entries", i, want.len()));
                }
            }
            _ => {
                let mut s = with_bounds!(o.set.range(), lo, hi).into_stream();
                let mut i = 0;
                while let Some(k) = s.next() {
                    if i >= want.len() || k != &want[i].0[..] {
                        return Err(format!("Set::range entry {} = {}", i, crate::json::show_bytes(k)));
                    }
                    i += 1;
                }
                if i != want.len() {
                    return Err(format!("Set::range ended after {} of {} entries", i, want.len()));
                }
            }
        }
        Ok(())
    });
    match r {
        Err(p) => {
            ev.violate("range-panic", format!("range stream panicked: {}", p), desc(kv, lo, hi, "map/set"));
            false
        }
        Ok(Err(e)) => {
            fail(ev, "wrapper", e);
            false
        }
        Ok(Ok(())) => true,
    }
}

/// "setting the same kind of bound twice uses the last setting"
fn repeated(o: &Opened, kv: &Kv, a: &[u8], b: &[u8], which: usize, ev: &mut Ev) {
    ev.eval(None);
    ev.count("repeated-bound-queries");
    let (lo, hi, got): (Lo, Hi, Vec<(Vec<u8>, u64)>) = match which % 8 {
        0 => (Lo::Ge(b.to_vec()), Hi::None, o.raw.range().ge(a).ge(b).into_stream().into_byte_vec()),
        1 => (Lo::Gt(b.to_vec()), Hi::None, o.raw.range().ge(a).gt(b).into_stream().into_byte_vec()),
        2 => (Lo::Ge(b.to_vec()), Hi::None, o.raw.range().gt(a).ge(b).into_stream().into_byte_vec()),
        3 => (Lo::Gt(b.to_vec()), Hi::None, o.map.range().gt(a).gt(b).into_stream().into_byte_vec()),
        4 => (Lo::None, Hi::Le(b.to_vec()), o.raw.range().le(a).le(b).into_stream().into_byte_vec()),
        5 => (Lo::None, Hi::Lt(b.to_vec()), o.raw.range().le(a).lt(b).into_stream().into_byte_vec()),
        6 => (Lo::None, Hi::Le(b.to_vec()), o.map.range().lt(a).le(b).into_stream().into_byte_vec()),
        _ => (Lo::Ge(a.to_vec()), Hi::Lt(b.to_vec()), o.raw.range().lt(a).ge(b).lt(b).ge(a).into_stream().into_byte_vec()),
    };
    let want = rangeq::expected(kv, &lo, &hi, &|_| true);
    if got.len() != want.len() || !got.iter().zip(want.iter()).all(|(g, w)| g.0 == w.0 && g.1 == w.1) {
        ev.violate("repeated-bound", format!("repeated bound setting #{} with a={} b={}: result differs from last-setting-wins ({})", which % 8, crate::json::show_bytes(a), crate::json::show_bytes(b), rangeq::show_q(&lo, &hi)), desc(kv, &lo, &hi, "repeated"));
    }
}

/// a random sequence of 2..6 bound-setter calls in any order; per side the LAST setting wins
fn setter_sequence(o: &Opened, kv: &Kv, bounds: &[Vec<u8>], rng: &mut Rng, ev: &mut Ev) {
    let n = 2 + rng.usize(5);
    let calls: Vec<(usize, Vec<u8>)> = (0..n).map(|_| (rng.usize(4), rng.pick(bounds).clone())).collect();
    let mut lo = Lo::None;
    let mut hi = Hi::None;
    for (kind, b) in &calls {
        match kind {
            0 => lo = Lo::Ge(b.clone()),
            1 => lo = Lo::Gt(b.clone()),
            2 => hi = Hi::Le(b.clone()),
            _ => hi = Hi::Lt(b.clone()),
        }
    }
    macro_rules! apply {
        ($b:expr) => {{
            let mut b = $b;
            for (kind, x) in &calls {
                b = match kind {
                    0 => b.ge(x),
                    1 => b.gt(x),
                    2 => b.le(x),
                    _ => b.lt(x),
                };
            }
            b
        }};
    }
    let api = rng.usize(5);
    let got: Vec<(Vec<u8>, u64)> = match api {
        0 => apply!(o.raw.range()).into_stream().into_byte_vec(),
        1 => apply!(o.raw.search(AlwaysMatch)).into_stream().into_byte_vec(),
        2 => apply!(o.map.range()).into_stream().into_byte_vec(),
        3 => apply!(o.set.range()).into_stream().into_bytes().into_iter().map(|k| {
            let v = kv.binary_search_by(|(x, _)| x.cmp(&k)).ok().map(|i| kv[i].1).unwrap_or(0);
            (k, v)
        }).collect(),
        _ => {
            let mut s = apply!(o.raw.search_with_state(AlwaysMatch)).into_stream();
            let mut out = vec![];
            while let Some((k, v, _)) = s.next() {
                out.push((k.to_vec(), v.value()));
            }
            out
        }
    };
    ev.eval(None);
    ev.count("setter-sequences");
    let want = rangeq::expected(kv, &lo, &hi, &|_| true);
    if got.len() != want.len() || !got.iter().zip(want.iter()).all(|(g, w)| g.0 == w.0 && g.1 == w.1) {
        let show: Vec<String> = calls.iter().map(|(k, b)| format!("{}({})", ["ge", "gt", "le", "lt"][*k], crate::json::show_bytes(b))).collect();
        ev.violate("repeated-bound", format!("bound setters called as {} through {}: got {} entries, last-setting-per-side-wins ({}) gives {}", show.join("."), ["Fst::range", "Fst::search", "Map::range", "Set::range", "Fst::search_with_state"][api], got.len(), rangeq::show_q(&lo, &hi), want.len()), desc(kv, &lo, &hi, "setter sequence"));
    }
}

fn bounds_for(kv: &Kv, universe: &[Vec<u8>], rng: &mut Rng) -> Vec<Vec<u8>> {
    let mut b: Vec<Vec<u8>> = universe.to_vec();
    let picks: Vec<usize> = if kv.is_empty() { vec![] } else { vec![0, kv.len() - 1, kv.len() / 2, rng.usize(kv.len())] };
    for i in picks {
        let k = &kv[i].0;
        let mut x = k.clone();
        x.push(0x00);
        b.push(x);
        let mut x = k.clone();
        x.push(0xff);
        b.push(x);
        if let Some(&last) = k.last() {
            let mut x = k.clone();
            *x.last_mut().unwrap() = last.wrapping_add(1);
            b.push(x);
            let mut x = k.clone();
            *x.last_mut().unwrap() = last.wrapping_sub(1);
            b.push(x);
        }
    }
    b.push(b"aaaa".to_vec());
    b.push(b"abab".to_vec());
    b.push(b"bbbb".to_vec());
    b.push(vec![0x00]);
    b.push(vec![0xff, 0xff]);
    b.sort();
    b.dedup();
    b
}

fn all_queries(bytes: &[u8], kv: &Kv, bounds: &[Vec<u8>], full: bool, rng: &mut Rng, ev: &mut Ev, hooks: &mut u64) {
    let o = match (Fst::new(bytes), Map::new(bytes), Set::new(bytes)) {
        (Ok(raw), Ok(map), Ok(set)) => Opened { raw, map, set },
        _ => {
            ev.violate("open-failed", "built FST does not open".into(), J::Null);
            return;
        }
    };
    let mut rot = rng.usize(3);
    let mut bad = 0;
    let mut run = |lo: &Lo, hi: &Hi, ev: &mut Ev| {
        if bad < 3 && !query(&o, kv, lo, hi, rot, ev, hooks) {
            bad += 1;
        }
        rot += 1;
    };
    run(&Lo::None, &Hi::None, ev);
    for x in bounds {
        for lo in lo_kinds(x).iter() {
            run(lo, &Hi::None, ev);
        }
        for hi in hi_kinds(x).iter() {
            run(&Lo::None, hi, ev);
        }
    }
    for x in bounds {
        for y in bounds {
            if !full && rng.below(4) != 0 {
                continue;
            }
            for lo in lo_kinds(x).iter() {
                for hi in hi_kinds(y).iter() {
                    run(lo, hi, ev);
                }
            }
        }
    }
    for i in 0..8 {
        let a = rng.pick(bounds).clone();
        let b = rng.pick(bounds).clone();
        if let Err(p) = guard(|| repeated(&o, kv, &a, &b, i, ev)) {
            ev.violate("range-panic", format!("repeated-bound query panicked: {}", p), J::Null);
        }
    }
    for _ in 0..12 {
        if let Err(p) = guard(|| setter_sequence(&o, kv, bounds, rng, ev)) {
            ev.violate("range-panic", format!("a sequence of bound setters panicked: {}", p), J::Null);
        }
    }
}

pub fn run(ctx: &Ctx) -> i32 {
    let u = gen::universe(b"ab", 3);
    let nmask = 1u64 << u.len();
    let quick = ctx.quick();
    let ev = ctx.par(|shard, n, ev| {
        let mut hooks = 0u64;
        let mut rng = Rng::new(ctx.seed, 0xC03 + shard as u64);
        // part 1: exhaustive small universe
        let mut g = 0usize;
        for mask in 0..nmask {
            let small = mask.count_ones() <= 4;
            let sampled = crate::rng::mix(mask ^ ctx.seed.wrapping_mul(77)) % 10 == 0;
            if quick && !small && !sampled {
                continue;
            }
            g += 1;
            if g % n != shard {
                continue;
            }
            let keys = gen::subset(&u, mask);
            let style = [1usize, 2, 4, 5, 0, 3][(mask % 6) as usize];
            let kv = gen::assign(keys, style, &mut rng);
            let bytes = match guard(|| build::build(Front::MapInsert, &kv)) {
                Ok(Ok(b)) => b,
                _ => {
                    ev.violate("build-error", "cannot build".into(), J::Null);
                    continue;
                }
            };
            let bounds = bounds_for(&kv, &u, &mut rng);
            ev.fps.insert(crate::rng::fnv_u64(mask, style as u64));
            let before = ev.evaluations;
            all_queries(&bytes, &kv, &bounds, !quick || small, &mut rng, ev, &mut hooks);
            ev.distinct_extra += ev.evaluations - before; // all (fst, query) pairs of one FST are distinct by construction
            ev.count("fsts:small-universe");
            if mask % 4099 == 7 {
                ev.sample(J::obj(vec![("fst", J::A(kv.iter().map(|(k, v)| J::A(vec![J::bytes(k), J::U(*v)])).collect())), ("bounds", J::A(bounds.iter().take(12).map(|b| J::bytes(b)).collect())), ("kinds", J::s("all (none|ge|gt) x (none|le|lt) combinations"))]));
            }
        }
        // part 1b: the small universe behind a LONG common prefix (31..65 bytes, around the sizes of machine words and inline
        // buffers): keys and both bounds share the prefix; bounds also end inside the prefix and diverge from it at its last bytes
        {
            let nlp = ctx.tier.pick(1200, 12_000);
            for i in 0..nlp {
                if i % n != shard {
                    continue;
                }
                let mut r = Rng::new(ctx.seed, 0x10b6 + i as u64);
                let plen = *r.pick(&[31usize, 32, 33, 40, 63, 64, 65]);
                let prefix: Vec<u8> = (0..plen).map(|j| b"https://example.org/articles/2024/long/common/prefix/of/the/keys/x"[j % 66]).collect();
                let mask = 1 + r.below(nmask - 1);
                let keys: Vec<Vec<u8>> = gen::subset(&u, mask).into_iter().map(|k| [&prefix[..], &k[..]].concat()).collect();
                let kv = gen::assign(keys, [1usize, 2, 4, 5][i % 4], &mut r);
                let bytes = match guard(|| build::build(Front::MapInsert, &kv)) {
                    Ok(Ok(b)) => b,
                    _ => {
                        ev.violate("build-error", "cannot build".into(), J::Null);
                        continue;
                    }
                };
                let mut bounds: Vec<Vec<u8>> = bounds_for(&kv, &u, &mut r).into_iter().filter(|b| b.len() >= plen || b.len() < 4).collect();
                for b in u.iter().take(9) {
                    bounds.push([&prefix[..], &b[..]].concat());
                }
                // inside the prefix, and leaving it at its last bytes
                bounds.push(prefix[..plen - 1].to_vec());
                bounds.push(prefix.clone());
                for d in [1usize, 2].iter() {
                    let mut b = prefix.clone();
                    b[plen - d] = b[plen - d].wrapping_add(1);
                    bounds.push(b.clone());
                    b.extend_from_slice(b"a");
                    bounds.push(b);
                    let mut b = prefix.clone();
                    b[plen - d] = b[plen - d].wrapping_sub(1);
                    b.extend_from_slice(b"b");
                    bounds.push(b);
                }
                bounds.sort();
                bounds.dedup();
                if bounds.len() > 26 {
                    // keep it to a few hundred bound pairs per FST
                    let keep: Vec<Vec<u8>> = bounds.iter().enumerate().filter(|(j, _)| (j + i) % ((bounds.len() + 25) / 26) == 0).map(|(_, b)| b.clone()).collect();
                    bounds = keep;
                }
                ev.fps.insert(crate::rng::fnv_u64(0x10b6, i as u64));
                let before = ev.evaluations;
                all_queries(&bytes, &kv, &bounds, false, &mut r, ev, &mut hooks);
                ev.distinct_extra += ev.evaluations - before;
                ev.count("fsts:small-universe-behind-a-long-common-prefix");
            }
        }
        // part 2: deep random maps over 3 symbols, bounds = keys / prefixes / +-1 mutations
        let ndeep = ctx.tier.pick(400, 6000);
        for i in 0..ndeep {
            if i % n != shard {
                continue;
            }
            let mut r = Rng::new(ctx.seed, 0xDEE9 + i as u64);
            let alpha: &[u8] = if i % 3 == 0 { b"abc" } else if i % 3 == 1 { &[0x00, 0x7f, 0xff] } else { b"te\x80" };
            let nk = 1 + r.usize(60);
            let keys = gen::random_keys(&mut r, nk, alpha, 12);
            let kv = gen::assign(keys, i % gen::NSTYLES, &mut r);
            let bytes = match guard(|| build::build(Front::RawGeom(7, 2), &kv)) {
                Ok(Ok(b)) => b,
                _ => {
                    ev.violate("build-error", "cannot build".into(), J::Null);
                    continue;
                }
            };
            let mut bounds: Vec<Vec<u8>> = vec![vec![]];
            for _ in 0..10 {
                let k = kv[r.usize(kv.len())].0.clone();
                bounds.push(k.clone());
                if !k.is_empty() {
                    bounds.push(k[..r.usize(k.len())].to_vec());
                    let mut x = k.clone();
                    let p = r.usize(x.len());
                    x[p] = x[p].wrapping_add(if r.chance(1, 2) { 1 } else { 255 });
                    bounds.push(x);
                }
                let mut x = k.clone();
                x.push(*r.pick(alpha));
                bounds.push(x);
            }
            bounds.sort();
            bounds.dedup();
            ev.fps.insert(crate::rng::fnv_u64(0xDEE9, i as u64));
            let before = ev.evaluations;
            all_queries(&bytes, &kv, &bounds, false, &mut r, ev, &mut hooks);
            if i % 4 == 0 {
                let old = crate::refenc::encode(&kv, 1 + (i as u64 / 4) % 2, 0, 1, &mut r);
                all_queries(&old, &kv, &bounds, false, &mut r, ev, &mut hooks);
                ev.count("fsts:deep-random-in-files-of-format-version-1-or-2");
            }
            ev.distinct_extra += ev.evaluations - before;
            ev.count("fsts:deep-random");
        }
        // part 2b: wide nodes (with and without index table) where the bound diverges AT the wide node: every child
        // byte's neighbours, 0x00, 0xfe, 0xff, and one-byte extensions of them
        for (wi, &fo) in [2usize, 31, 32, 33, 64, 200, 255, 256].iter().enumerate() {
            for depth in 0..2usize {
                for variant in 0..2usize {
                    let idx = (wi * 2 + depth) * 2 + variant;
                    if idx % n != shard {
                        continue;
                    }
                    let mut r = Rng::new(ctx.seed, 0x31de + idx as u64);
                    let mut keys = gen::fanout_keys(fo, depth, variant == 1, true, &mut r);
                    // make sure the extreme bytes occur as children in some of the cases
                    if variant == 1 && fo < 256 {
                        let prefix: Vec<u8> = keys.iter().find(|k| k.len() > depth).map(|k| k[..depth].to_vec()).unwrap_or_default();
                        for b in [0x00u8, 0xff].iter() {
                            let mut k = prefix.clone();
                            k.push(*b);
                            keys.push(k);
                        }
                        keys.sort();
                        keys.dedup();
                    }
                    let kv = gen::assign(keys, [1usize, 5, 4][idx % 3], &mut r);
                    let bytes = match guard(|| build::build(Front::MapInsert, &kv)) {
                        Ok(Ok(b)) => b,
                        _ => {
                            ev.violate("build-error", "cannot build".into(), J::Null);
                            continue;
                        }
                    };
                    let prefix: Vec<u8> = kv.iter().find(|(k, _)| k.len() > depth).map(|(k, _)| k[..depth].to_vec()).unwrap_or_default();
                    let mut bs: Vec<u8> = vec![0x00, 0x01, 0x7f, 0x80, 0xfd, 0xfe, 0xff];
                    for _ in 0..10 {
                        let (k, _) = &kv[r.usize(kv.len())];
                        if k.len() > depth {
                            bs.push(k[depth]);
                            bs.push(k[depth].wrapping_add(1));
                            bs.push(k[depth].wrapping_sub(1));
                        }
                    }
                    bs.sort();
                    bs.dedup();
                    let mut bounds: Vec<Vec<u8>> = vec![vec![], prefix.clone()];
                    for b in bs {
                        let mut x = prefix.clone();
                        x.push(b);
                        bounds.push(x.clone());
                        x.push(if b % 2 == 0 { 0x00 } else { b'x' });
                        bounds.push(x);
                    }
                    bounds.sort();
                    bounds.dedup();
                    ev.fps.insert(crate::rng::fnv_u64(0x31de, idx as u64));
                    let before = ev.evaluations;
                    all_queries(&bytes, &kv, &bounds, false, &mut r, ev, &mut hooks);
                    // the same content as files of the older format versions (1: no index table in wide nodes, 2: no
                    // checksum), written by the independent reference encoder: maps and sets built by older releases
                    for ver in [1u64, 2].iter() {
                        let old = crate::refenc::encode(&kv, *ver, 0, 1, &mut r);
                        all_queries(&old, &kv, &bounds, false, &mut r, ev, &mut hooks);
                        ev.count("fsts:wide-nodes-in-files-of-format-version-1-or-2");
                    }
                    ev.distinct_extra += ev.evaluations - before;
                    ev.count("fsts:wide-nodes");
                }
            }
        }
        // part 3: corpus with bounds from keys
        if shard < 2 {
            let name = ["words-10000", "wiki-urls-10000"][shard];
            let keys = gen::corpus(name);
            if !keys.is_empty() {
                let kv = gen::assign(keys, 1, &mut rng);
                if let Ok(Ok(bytes)) = guard(|| build::build(Front::MapInsert, &kv)) {
                    let mut bounds = vec![];
                    for _ in 0..ctx.tier.pick(12, 40) {
                        let k = kv[rng.usize(kv.len())].0.clone();
                        bounds.push(k[..rng.usize(k.len() + 1)].to_vec());
                        bounds.push(k);
                    }
                    bounds.sort();
                    bounds.dedup();
                    let before = ev.evaluations;
                    all_queries(&bytes, &kv, &bounds, false, &mut rng, ev, &mut hooks);
                    ev.distinct_extra += ev.evaluations - before;
                    ev.count("fsts:corpus");
                }
            }
        }
        ev.add("hook:stream-invariant-checks", hooks);
    });
    let mut floors: Vec<(&str, u64)> = vec![];
    for c in ["lo:empty-inclusive", "lo:empty-exclusive", "lo:exact-key-inclusive", "lo:exact-key-exclusive", "lo:nonfinal-prefix-inclusive", "lo:nonfinal-prefix-exclusive", "lo:past-leaf-inclusive", "lo:past-leaf-exclusive", "lo:diverges-larger-sibling-inclusive", "lo:diverges-larger-sibling-exclusive", "lo:diverges-no-larger-sibling-inclusive", "lo:diverges-no-larger-sibling-exclusive", "hi:none", "hi:before-first", "hi:between", "hi:after-last", "hi:exact-key-inclusive", "hi:exact-key-exclusive", "hi:empty-inclusive", "hi:empty-exclusive", "repeated-bound-queries", "setter-sequences"].iter() {
        floors.push((c, 100));
    }
    finish(
        ctx,
        ev,
        Spec {
            level: "exploration",
            rule: "one evaluation = one range query (lower in {none,ge,gt} x upper in {none,le,lt} x bound strings) whose full output (keys, values, order, termination) is compared with the model filter, through raw search_with_state (hook H3 checks stack/key-buffer lock step after construction and after every next(); a breach is attached as diagnosis to an output violation and otherwise only recorded) and one of Fst::range / Map::range / Set::range; FSTs: subsets of {a,b}^<=3 (quick: all subsets with <=4 keys + every 10th other; thorough: all 32768) with all pairs of bounds from {a,b}^<=3 + k.00, k.ff, last byte +-1, absent 4-byte strings; deep random maps over 3 symbols (incl. 00/7f/ff) with bounds = keys, prefixes, +-1 mutations, extensions; nodes of fan-out {2,31,32,33,64,200,255,256} at depth 0 and 1 with bounds that diverge at the wide node (child bytes +-1, 00, fe, ff, and extensions), each also as a version-1 and a version-2 file written by the independent reference encoder (as is every fourth deep random map); two corpora; repeated-bound settings and random sequences of 2..6 setter calls in any order (ge/gt/le/lt interleaved, per side the last one wins) through Fst::range, Fst::search, Map::range, Set::range and search_with_state; non-trivial = every query; distinct = (FST, query) pairs, distinct by construction",
            assumptions: vec!["bound classes (lo:*, hi:*) are decided from the inputs alone".into(), "hook H3 (verif_frames) is a read-only view; hook:* counts are recorded only".into()],
            floors,
            exhaustive: Some(!quick),
        },
    )
}
