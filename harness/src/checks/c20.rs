//! C20 - Opening and verifying untrusted bytes is total and memory-safe.
//! Native: catch_unwind totality monitor in a release AND an overflow-checked build. Miri: UB interpreter shards.
use crate::ctx::{finish, Ctx, Ev, Spec};
use crate::json::J;
use crate::rng::Rng;
use crate::untrusted::{self, Stats, FIELD_VALUES, VERSIONS};
use std::process::Command;

/// the native sweep, shard `shard` of `n`
pub fn native_sweep(seed: u64, thorough: bool, shard: usize, n: usize) -> Stats {
    let mut st = Stats::default();
    let mut rng = Rng::new(seed, 0xC20 + shard as u64);
    // 1. boundary images: every length 0..=64 x versions x root field x len field x 3 fillings
    let mut g = 0usize;
    for l in 0..=64usize {
        for vi in 0..VERSIONS.len() {
            for ri in 0..FIELD_VALUES {
                for li in 0..FIELD_VALUES {
                    for variant in 0..3 {
                        g += 1;
                        if g % n != shard {
                            continue;
                        }
                        let mut img = untrusted::boundary_image(l, vi, ri, li, variant, &mut rng);
                        untrusted::gate(&img, &mut st);
                        if VERSIONS[vi] == 3 && l >= 36 {
                            // the same hostile header/footer, but certified by a correct checksum
                            untrusted::fix_checksum(&mut img);
                            untrusted::gate(&img, &mut st);
                        }
                    }
                }
            }
        }
    }
    // 1b. large images around block-size boundaries (64 KiB, 1 MiB, 2 MiB +- a few bytes); they open (plausible root
    //     address), half of them carry a correct checksum
    if shard == 0 {
        for &base in [1usize << 16, 1 << 20, 2 << 20].iter() {
            for d in 0..9usize {
                let l = base + d - 3;
                for fixed in 0..2 {
                    let mut img = vec![0x5au8; l];
                    img[..8].copy_from_slice(&3u64.to_le_bytes());
                    img[8..16].copy_from_slice(&0u64.to_le_bytes());
                    img[l - 12..l - 4].copy_from_slice(&((l - 21) as u64).to_le_bytes());
                    img[l - 20..l - 12].copy_from_slice(&1u64.to_le_bytes());
                    if fixed == 1 {
                        untrusted::fix_checksum(&mut img);
                    }
                    untrusted::gate(&img, &mut st);
                }
            }
        }
    }
    // 2. random strings, lengths 0..512 (a third of them with a plausible version field)
    let nrand = if thorough { 20_000_000 } else { 1_000_000 } / n;
    for i in 0..nrand {
        let l = rng.usize(513);
        let mut img: Vec<u8> = (0..l).map(|_| rng.next() as u8).collect();
        if i % 3 != 0 && l >= 8 {
            img[..8].copy_from_slice(&(1 + rng.below(3)).to_le_bytes());
        }
        if i % 5 == 0 && l >= 36 {
            // plausible root address so that more images open
            let end = l - 4;
            img[end - 8..end].copy_from_slice(&((l as u64).wrapping_sub(21)).to_le_bytes());
        }
        if i % 7 == 0 {
            untrusted::fix_checksum(&mut img);
        }
        untrusted::gate(&img, &mut st);
    }
    // 3. every truncation and single-byte mutations of valid FSTs
    let fsts = untrusted::valid_fsts(&mut Rng::new(seed, 0xF57), if thorough { 200 } else { 50 }, false);
    for (fi, f) in fsts.iter().enumerate() {
        if fi % n != shard {
            continue;
        }
        for cut in 0..=f.len() {
            untrusted::gate(&f[..cut], &mut st);
        }
        let mut img = f.clone();
        for pos in 0..img.len() {
            let orig = img[pos];
            for v in [orig ^ 1, orig ^ 0x80, 0xff, 0, orig.wrapping_add(1)].iter() {
                if *v != orig {
                    img[pos] = *v;
                    untrusted::gate(&img, &mut st);
                    if pos + 4 < img.len() && (*v == orig ^ 1 || pos + 24 >= img.len()) {
                        // a corrupted body/footer whose checksum was recomputed by the attacker
                        let mut fixed = img.clone();
                        untrusted::fix_checksum(&mut fixed);
                        untrusted::gate(&fixed, &mut st);
                    }
                }
            }
            img[pos] = orig;
        }
        // extensions
        let mut ext = f.clone();
        for _ in 0..8 {
            ext.push(rng.next() as u8);
            untrusted::gate(&ext, &mut st);
        }
    }
    st
}

/// `fstmon C20-native`: run the whole native sweep in this build profile and print one summary line
pub fn native_child(seed: u64, tier: crate::ctx::Tier) -> i32 {
    let ctx = Ctx::new("C20", tier, seed);
    let n = ctx.threads;
    let parts: Vec<Stats> = std::thread::scope(|s| {
        let hs: Vec<_> = (0..n).map(|i| s.spawn(move || native_sweep(seed, tier == crate::ctx::Tier::Thorough, i, n))).collect();
        hs.into_iter().map(|h| h.join().unwrap_or_default()).collect()
    });
    let mut total = Stats::default();
    for p in &parts {
        total.merge(p);
    }
    println!("C20-NATIVE {}", total.line());
    0
}

fn run_child(bin: &std::path::Path, seed: u64, tier: &str) -> Option<Stats> {
    let out = Command::new(bin).arg("C20-native").arg("--seed").arg(seed.to_string()).arg("--tier").arg(tier).output().ok()?;
    let text = String::from_utf8_lossy(&out.stdout).to_string();
    text.lines().find_map(|l| l.strip_prefix("C20-NATIVE ").and_then(Stats::parse))
}

/// The same gate as shipped on the command line: `fst verify <file>` over hostile files must END WITH A VERDICT - exit status 0
/// (certified) or 1 (rejected with an error message) - never a panic (status 101), another status, or death by signal.
fn cli_gate(ctx: &Ctx, ev: &mut Ev) {
    let bin = match std::env::var_os("FST_BIN") {
        Some(b) => std::path::PathBuf::from(b),
        None => {
            ev.count("cli-gate:binary-not-available");
            return;
        }
    };
    let dir = ctx.root.join("target").join("tmp").join(format!("c20-cli-{}", std::process::id()));
    let _ = std::fs::remove_dir_all(&dir);
    if std::fs::create_dir_all(&dir).is_err() {
        return;
    }
    let mut rng = crate::rng::Rng::new(ctx.seed, 0xC20C11);
    // a few valid FSTs (set, map with outputs, wide root, empty, only the empty key)
    let mut goods: Vec<Vec<u8>> = vec![];
    {
        use fst::raw::Builder;
        let mk = |kv: Vec<(Vec<u8>, u64)>| {
            let mut b = Builder::memory();
            for (k, v) in kv {
                b.insert(k, v).unwrap();
            }
            b.into_inner().unwrap()
        };
        goods.push(mk(vec![]));
        goods.push(mk(vec![(vec![], 0)]));
        goods.push(mk(vec![(vec![], 7), (b"a".to_vec(), 9), (b"ab".to_vec(), 1 << 40)]));
        goods.push(mk((0..=255u8).map(|b| (vec![b], b as u64 * 3)).collect()));
        goods.push(mk((0..300u32).map(|i| (format!("key{:05}", i).into_bytes(), (i as u64) << (i % 50))).collect()));
    }
    let mut images: Vec<Vec<u8>> = vec![];
    for len in [0usize, 1, 7, 8, 15, 16, 31, 32, 35, 36, 37, 40, 64, 200].iter() {
        images.push((0..*len).map(|_| rng.next() as u8).collect());
        images.push(vec![0u8; *len]);
    }
    let boundary = |len: usize| -> Vec<u64> { vec![0, 1, 2, 16, 17, (len as u64).wrapping_sub(21), (len as u64).wrapping_sub(17), len as u64, 1 << 32, u64::MAX - 20, u64::MAX] };
    for g in &goods {
        for version in [1u8, 2, 3].iter() {
            // the valid bytes relabelled (old versions read a different footer), then damaged
            let mut img = g.clone();
            img[0] = *version;
            images.push(img.clone());
            for _ in 0..ctx.tier.pick(6, 60) {
                let mut m = img.clone();
                let pos = rng.usize(m.len());
                m[pos] ^= 1 << rng.below(8);
                images.push(m);
            }
            // hostile footer fields
            let l = img.len();
            let foot = if *version == 3 { 20 } else { 16 };
            if l >= 16 + foot {
                for v in boundary(l) {
                    let mut m = img.clone();
                    m[l - foot + 8..l - foot + 16].copy_from_slice(&v.to_le_bytes());
                    images.push(m);
                    let mut m = img.clone();
                    m[l - foot..l - foot + 8].copy_from_slice(&v.to_le_bytes());
                    images.push(m);
                }
            }
            // truncations
            let mut cut = l;
            while cut > 0 {
                cut = cut.saturating_sub(1 + rng.usize(9));
                images.push(img[..cut].to_vec());
                if images.len() % 3 != 0 {
                    break;
                }
            }
        }
    }
    let path = dir.join("image.fst");
    for (i, img) in images.iter().enumerate() {
        if std::fs::write(&path, img).is_err() {
            continue;
        }
        ev.eval(Some(crate::rng::fnv_u64(0xC20C, crate::rng::fnv(img))));
        let out = Command::new(&bin).arg("verify").arg(&path).env_remove("FST_VERIF_TRACE").env_remove("FST_VERIF_SEED").output();
        match out {
            Err(_) => ev.count("cli-gate:spawn-failed"),
            Ok(o) => match o.status.code() {
                Some(0) => ev.count("cli-gate:verdict-certified"),
                Some(1) => ev.count("cli-gate:verdict-rejected"),
                other => {
                    use std::os::unix::process::ExitStatusExt;
                    let err = String::from_utf8_lossy(&o.stderr).to_string();
                    ev.violate(
                        "open-verify-panic",
                        format!("`fst verify` on hostile image #{} ({} bytes) ended without a verdict: exit status {:?}, signal {:?}: {}", i, img.len(), other, o.status.signal(), err.lines().find(|l| l.contains("panicked")).or(err.lines().last()).unwrap_or("")),
                        J::obj(vec![("image_hex", J::s(crate::json::hex(&img[..img.len().min(400)]))), ("bytes", J::U(img.len() as u64))]),
                    );
                }
            },
        }
    }
    let _ = std::fs::remove_dir_all(&dir);
}

pub fn run(ctx: &Ctx) -> i32 {
    let mut ev = Ev::new();
    let exe = std::env::current_exe().unwrap();
    let mut inconclusive: Vec<String> = vec![];
    // native, two build profiles
    let profiles: Vec<(&str, std::path::PathBuf)> = vec![("release", exe.clone()), ("overflow-checked+debug-assertions", std::env::var_os("FSTMON_RELCHECK").map(std::path::PathBuf::from).unwrap_or_default())];
    for (name, bin) in &profiles {
        if !bin.exists() {
            inconclusive.push(format!("{} build of the monitor not available", name));
            continue;
        }
        match run_child(bin, ctx.seed, ctx.tier.name()) {
            None => inconclusive.push(format!("native sweep in the {} build produced no summary", name)),
            Some(st) => {
                ev.evals(st.images);
                ev.distinct_extra += st.images / 2; // conservative: boundary+mutation images are distinct by construction, random ones almost surely
                ev.add(&format!("native[{}]:images", name), st.images);
                ev.add(&format!("native[{}]:rejected-format", name), st.rejected_format);
                ev.add(&format!("native[{}]:rejected-version", name), st.rejected_version);
                ev.add(&format!("native[{}]:opened", name), st.opened);
                ev.add(&format!("native[{}]:opened-verify-ok", name), st.verify_ok);
                ev.add(&format!("native[{}]:opened-verify-mismatch", name), st.verify_mismatch);
                ev.add(&format!("native[{}]:opened-verify-missing", name), st.verify_missing);
                ev.add(&format!("native[{}]:panics", name), st.panics);
                if st.panics > 0 {
                    ev.violate("open-verify-panic", format!("{} build: {} of {} images made open/accessors/verify panic; first: {}", name, st.panics, st.images, st.first_panic.clone().unwrap_or_default()), J::s(st.first_panic.unwrap_or_default()));
                }
            }
        }
    }
    cli_gate(ctx, &mut ev);
    // auxiliary, non-runtime gate for the purely syntactic sentence "the library contains no unsafe code": the library must compile
    // with -F unsafe_code - with the default target features AND with every feature of this CPU enabled (code behind
    // cfg(target_feature = ...) is part of the library as well) AND with debug assertions off/on as cargo's profiles have them
    {
        let variants: [(&str, &[&str]); 2] = [("default target features", &[]), ("-C target-cpu=native", &["-C", "target-cpu=native"])];
        for (vi, (what, extra)) in variants.iter().enumerate() {
            let tgt = ctx.root.join("target").join(if vi == 0 { "aux".to_string() } else { format!("aux{}", vi) });
            let mut args: Vec<&str> = vec!["rustc", "--offline", "-p", "fst", "--lib", "--features", "levenshtein", "--", "-F", "unsafe_code"];
            args.extend_from_slice(extra);
            let out = Command::new("cargo").current_dir("/repo").env("CARGO_TARGET_DIR", &tgt).env_remove("RUSTFLAGS").args(&args).output();
            match out {
                Ok(o) if o.status.success() => {
                    if vi == 0 {
                        ev.count("aux:library-compiles-with-forbid-unsafe_code");
                    } else {
                        ev.count("aux:library-compiles-with-forbid-unsafe_code(all cpu features)");
                    }
                }
                Ok(o) => {
                    let err = String::from_utf8_lossy(&o.stderr).to_string();
                    if err.contains("unsafe") {
                        let first = err.lines().filter(|l| l.contains("error") || l.contains("-->")).take(4).collect::<Vec<_>>().join(" | ");
                        ev.violate("unsafe-code-present", format!("the library does not compile with -F unsafe_code ({}; auxiliary, non-runtime gate): {}", what, first), J::s(first.clone()));
                    } else if vi == 0 {
                        inconclusive.push("auxiliary forbid(unsafe_code) build failed for another reason".into());
                    } else {
                        // a tool chain that cannot build for the native CPU says nothing about the library
                        ev.count("aux:native-cpu-build-not-available");
                    }
                }
                Err(_) => inconclusive.push("cannot run cargo for the auxiliary gate".into()),
            }
        }
    }
    // Miri shards
    let nshards = 16usize;
    let harness = ctx.root.join("harness");
    let tgt = ctx.root.join("target").join("miri");
    let build = Command::new("cargo").current_dir(&harness).env("CARGO_TARGET_DIR", &tgt).env("RUSTFLAGS", "--cfg burntsushi_fst_verif").env("MIRIFLAGS", "").args(&["+nightly", "miri", "run", "--offline", "--bin", "fstmiri", "--", "0", "0", "0", "probe"]).output();
    let miri_ok = matches!(&build, Ok(o) if String::from_utf8_lossy(&o.stdout).contains("MIRI-SHARD"));
    if !miri_ok {
        let why = build.map(|o| String::from_utf8_lossy(&o.stderr).lines().rev().take(6).collect::<Vec<_>>().join(" | ")).unwrap_or_else(|e| e.to_string());
        inconclusive.push(format!("Miri could not build/run the probe shard: {}", why));
    } else {
        let outs: Vec<(usize, Option<std::process::Output>)> = std::thread::scope(|s| {
            let hs: Vec<_> = (0..nshards)
                .map(|i| {
                    let harness = &harness;
                    let tgt = &tgt;
                    s.spawn(move || {
                        (
                            i,
                            Command::new("cargo")
                                .current_dir(harness)
                                .env("CARGO_TARGET_DIR", tgt)
                                .env("RUSTFLAGS", "--cfg burntsushi_fst_verif")
                                .env("MIRIFLAGS", "")
                                .args(&["+nightly", "miri", "run", "--offline", "--bin", "fstmiri", "--", &i.to_string(), &nshards.to_string(), &ctx.seed.to_string(), ctx.tier.name()])
                                .output()
                                .ok(),
                        )
                    })
                })
                .collect();
            hs.into_iter().map(|h| h.join().unwrap()).collect()
        });
        for (i, o) in outs {
            match o {
                None => inconclusive.push(format!("Miri shard {} could not be started", i)),
                Some(o) => {
                    let stdout = String::from_utf8_lossy(&o.stdout).to_string();
                    let stderr = String::from_utf8_lossy(&o.stderr).to_string();
                    if stderr.contains("Undefined Behavior") || stderr.contains("error: unsupported operation") && false {
                        let first = stderr.lines().skip_while(|l| !l.contains("Undefined Behavior")).take(12).collect::<Vec<_>>().join("\n");
                        ev.violate("miri-undefined-behaviour", format!("Miri shard {} reported undefined behaviour:\n{}", i, first), J::s(first.clone()));
                        continue;
                    }
                    match stdout.lines().find(|l| l.starts_with("MIRI-SHARD ")) {
                        Some(l) if o.status.success() => {
                            ev.count("miri:shards-completed");
                            for tok in l.split_whitespace() {
                                if let Some(p) = tok.find('=') {
                                    if let Ok(v) = tok[p + 1..].parse::<u64>() {
                                        ev.add(&format!("miri:{}", &tok[..p]), v);
                                        if &tok[..p] == "ops" {
                                            ev.evals(v);
                                            ev.distinct_extra += v;
                                        }
                                    }
                                }
                            }
                            if l.contains("gate_panics=") && !l.contains("gate_panics=0") {
                                ev.violate("open-verify-panic", format!("under Miri the open/verify gate panicked: {}", l), J::s(l));
                            }
                        }
                        _ => inconclusive.push(format!("Miri shard {} ended without a summary (status {:?}): {}", i, o.status.code(), stderr.lines().rev().take(4).collect::<Vec<_>>().join(" | "))),
                    }
                }
            }
        }
    }
    ev.sample(J::obj(vec![("boundary_image", J::s("length 0..64 x version field {0,1,2,3,4,2^40,u64::MAX} x root/len footer fields {0,1,2,3,4,20,21,L-21,L-20,L-17,L,2^32,u64::MAX-20,u64::MAX} x {zero, 0xff, random} filling")), ("example_hex", J::s(crate::json::hex(&untrusted::boundary_image(40, 3, 7, 1, 0, &mut Rng::new(1, 1)))))]));
    ev.sample(J::s("every truncation, 5 single-byte mutations per offset and 8 extensions of 50 (200) valid FSTs; 10^6 (2*10^7) random strings of length 0..512"));
    if !inconclusive.is_empty() && ev.nviol == 0 {
        for m in &inconclusive {
            println!("INCONCLUSIVE property=C20 {}", m);
        }
        ev.note("inconclusive_reasons", J::A(inconclusive.iter().map(|s| J::s(s.clone())).collect()));
        ev.add("inconclusive-parts", inconclusive.len() as u64);
    }
    let need_parts = if inconclusive.is_empty() { 0 } else { 1 };
    let mut floors: Vec<(&str, u64)> = vec![("cli-gate:verdict-rejected", 100), ("cli-gate:verdict-certified", 3), ("native[release]:images", 100_000), ("native[overflow-checked+debug-assertions]:images", 100_000), ("native[release]:opened", 1000), ("native[release]:rejected-format", 1000), ("native[release]:rejected-version", 1000), ("native[release]:opened-verify-ok", 10), ("native[release]:opened-verify-mismatch", 100), ("native[release]:opened-verify-missing", 100), ("miri:shards-completed", 16), ("miri:ops", 500), ("aux:library-compiles-with-forbid-unsafe_code", 1)];
    if need_parts == 1 {
        floors.push(("all-parts-ran", 1));
    }
    finish(
        ctx,
        ev,
        Spec {
            level: "exploration",
            rule: "(also: the command line gate `fst verify <file>` run as a subprocess over several hundred hostile files - random bytes, valid FSTs relabelled as version 1/2/3 and damaged, hostile footer fields, truncations - must end with a verdict, exit status 0 or 1, never a panic status or a signal) one evaluation = one byte string pushed through the gate Fst::new / Map::new / Set::new, then on anything that opens len, is_empty, fst_type, size, as_bytes, to_vec, as_inner and verify(), all under catch_unwind; run in a release build AND in an optimised build with overflow checks and debug assertions (footer arithmetic differs); images: every length 0..64 x 7 version fields x 14x14 footer root/len boundary values x 3 fillings (~2.7*10^5; version-3 images additionally with a CORRECT recomputed checksum, so that verify() gets past its comparison), the same bytes also arriving through Fst::map_data / Map::map_data on a container opened from good bytes, 54 large images around 64 KiB / 1 MiB / 2 MiB +-3 bytes, 10^6 (thorough 2*10^7) random strings of length 0..512, every truncation / 5 single-byte mutations per offset / extensions of 50 (200) valid FSTs; Miri (undefined-behaviour interpreter) runs 16 shards of the same gate on boundary images plus bounded traversals (stream, get, range, search, set operation) of single-byte-mutated FSTs where a panic is allowed but undefined behaviour is not, and (thorough) a miniature of every public operation on valid inputs; the syntactic clause 'no unsafe code' is covered by an auxiliary NON-RUNTIME gate (the library must compile with -F unsafe_code); non-trivial = every image; distinct_nontrivial is counted conservatively (half of the native images + all Miri operations)",
            assumptions: vec!["root(), node() and traversals may panic on malformed data: the statement only makes open, metadata accessors and verify total".into(), "Miri cannot see through FFI; the library has none".into(), "a Miri or build-tool failure is INCONCLUSIVE, never a violation".into()],
            floors,
            exhaustive: Some(false),
        },
    )
}
