//! C19 - Unsorted CLI builds are independent of batching, threads and scheduling.
//! Monitor: the real `fst` binary (built from /repo/fst-bin with hook H4) is run as a subprocess under seeded
//! delay injection; its batch trace is parsed into the merge tree; output is judged against a model merge.
use crate::ctx::{finish, guard, Ctx, Ev, Spec};
use crate::json::J;
use crate::rng::Rng;
use fst::raw::Fst;
use fst::{MapBuilder, SetBuilder};
use std::collections::{BTreeMap, HashSet};
use std::path::{Path, PathBuf};
use std::process::{Command, Stdio};
use std::time::{Duration, Instant};

#[derive(Clone, Copy, Debug, PartialEq)]
enum Mode {
    Set,
    Sum,
    Max,
    Min,
}

#[derive(Clone)]
struct Input {
    name: &'static str,
    /// rows per input file; a file may be listed more than once (then its rows count more than once)
    files: Vec<Vec<(String, u64)>>,
    /// with `same_path_twice`, files[0] is written once and its path is passed twice in a row
    same_path_twice: bool,
    /// 0 = "\n" after every row; 1 = "\r\n" after every row; 2 = no terminator after the last row of each file
    terminators: u8,
}

fn key(rng: &mut Rng) -> String {
    let l = 1 + rng.usize(12);
    (0..l).map(|_| *rng.pick(b"abcdefghijklmnopqrstuvwxyz0123456789") as char).collect()
}

fn inputs(ctx: &Ctx) -> Vec<Input> {
    let mut rng = Rng::new(ctx.seed, 0xC19);
    let mut uniq = |n: usize, rng: &mut Rng| -> Vec<(String, u64)> {
        let mut seen = HashSet::new();
        let mut v = vec![];
        while v.len() < n {
            let k = key(rng);
            if seen.insert(k.clone()) {
                v.push((k, rng.below(1 << 32)));
            }
        }
        v
    };
    let mut out = vec![];
    out.push(Input { name: "no-repeats-50", files: vec![uniq(50, &mut rng)], same_path_twice: false, terminators: 0 });
    out.push(Input { name: "no-repeats-500", files: vec![uniq(500, &mut rng)], same_path_twice: false, terminators: 0 });
    {
        // repeats far apart (across batches for small batch sizes)
        let base = uniq(40, &mut rng);
        let mut rows = base.clone();
        rows.extend(uniq(30, &mut rng));
        for (k, _) in base.iter().take(20) {
            rows.push((k.clone(), rng.below(1 << 32)));
        }
        out.push(Input { name: "repeats-far-apart", files: vec![rows], same_path_twice: false, terminators: 0 });
    }
    {
        // adjacent repeats, incl. identical rows
        let base = uniq(30, &mut rng);
        let mut rows = vec![];
        for (i, (k, v)) in base.iter().enumerate() {
            rows.push((k.clone(), *v));
            if i % 2 == 0 {
                rows.push((k.clone(), *v)); // identical row
            }
            if i % 3 == 0 {
                rows.push((k.clone(), rng.below(1 << 32)));
                rows.push((k.clone(), 0));
            }
        }
        out.push(Input { name: "repeats-adjacent-and-identical-rows", files: vec![rows], same_path_twice: false, terminators: 0 });
    }
    {
        let a = uniq(60, &mut rng);
        let mut b = uniq(20, &mut rng);
        b.extend(a.iter().take(10).cloned());
        let c: Vec<(String, u64)> = a.iter().skip(5).take(10).map(|(k, _)| (k.clone(), rng.below(1000))).collect();
        out.push(Input { name: "three-input-files", files: vec![a, b, c], same_path_twice: false, terminators: 0 });
    }
    {
        // empty input files in first, middle and last position
        let a = uniq(15, &mut rng);
        let b = uniq(15, &mut rng);
        let mut c = uniq(5, &mut rng);
        c.push(a[0].clone());
        out.push(Input { name: "five-input-files-some-empty", files: vec![vec![], a, vec![], b, c, vec![]], same_path_twice: false, terminators: 0 });
    }
    {
        // the same path given twice in a row: its rows count twice
        let a = uniq(25, &mut rng);
        let b = uniq(10, &mut rng);
        out.push(Input { name: "same-path-listed-twice", files: vec![a.clone(), a, b], same_path_twice: true, terminators: 0 });
    }
    {
        let a = uniq(40, &mut rng);
        out.push(Input { name: "crlf-line-endings", files: vec![a], same_path_twice: false, terminators: 1 });
        let b = uniq(12, &mut rng);
        let c = uniq(12, &mut rng);
        let d = uniq(3, &mut rng);
        out.push(Input { name: "files-without-final-newline", files: vec![b, c, d], same_path_twice: false, terminators: 2 });
    }
    {
        // a file that ends without a line terminator, directly followed by an empty file, followed by more files
        let b = uniq(12, &mut rng);
        let c = uniq(12, &mut rng);
        let d = uniq(4, &mut rng);
        out.push(Input { name: "no-final-newline-then-empty-files", files: vec![b, vec![], c, vec![], vec![], d, vec![]], same_path_twice: false, terminators: 2 });
    }
    {
        // lines are byte strings: a first line that starts with the bytes EF BB BF (U+FEFF) is a key like any other. Only judged
        // for `fst set` (the CSV reader of `fst map` has its own, documented, treatment of a leading byte order mark: in the map
        // modes this shape is written and modelled without the prefix).
        let mut a = uniq(20, &mut rng);
        let mut b = uniq(10, &mut rng);
        a[0].0 = format!("\u{feff}{}", a[0].0);
        b[0].0 = format!("\u{feff}{}", b[0].0);
        out.push(Input { name: "bom-first-line-starts-with-ef-bb-bf", files: vec![a, b], same_path_twice: false, terminators: 0 });
    }
    // enough rows that batch size 1 yields thousands of batches in one phase (more than any plausible bounded queue holds)
    out.push(Input { name: "six-thousand-rows-for-batch-size-1", files: vec![uniq(6000, &mut rng)], same_path_twice: false, terminators: 0 });
    {
        // short keys that differ only by trailing NUL bytes (lines are byte strings; 0x00 is a byte like any other), all in one batch
        let mut rows: Vec<(String, u64)> = vec![];
        for (i, base) in ["ab", "b", "abcdefg", "q7"].iter().enumerate() {
            rows.push((format!("{}\0\0", base), 30 + i as u64));
            rows.push((format!("{}\0", base), 20 + i as u64));
            rows.push((base.to_string(), 10 + i as u64));
            rows.push((format!("{}\0a", base), 5));
        }
        rows.extend(uniq(10, &mut rng));
        out.push(Input { name: "keys-differing-only-by-trailing-nul-bytes", files: vec![rows], same_path_twice: false, terminators: 0 });
    }
    {
        // keys with leading / trailing blanks and tabs are keys like any other (and differ from their trimmed siblings)
        let mut rows: Vec<(String, u64)> = vec![];
        for (i, base) in ["a", "b c", "key", "x9"].iter().enumerate() {
            rows.push((base.to_string(), 1 + i as u64));
            rows.push((format!("{} ", base), 10 + i as u64));
            rows.push((format!(" {}", base), 100 + i as u64));
            rows.push((format!("{}\t", base), 1000 + i as u64));
            rows.push((format!("  {}  ", base), 7));
        }
        rows.extend(uniq(8, &mut rng));
        out.push(Input { name: "keys-with-leading-and-trailing-blanks", files: vec![rows.clone(), rows.iter().rev().take(7).cloned().collect()], same_path_twice: false, terminators: 0 });
    }
    // CRLF files of ~160 KB in which, at EVERY multiple of 4096 bytes (the usual sizes of read buffers are multiples of it), the
    // line ending straddles the boundary: the CR is the last byte before it, the LF is the last byte before it, or the CR is
    // the first byte after it (the three cases rotate). The line lengths are solved once for the lines of `fst set`
    // (key CR LF) and once for those of `fst map` (key , digit CR LF).
    for (name, extra) in [("crlf-line-endings-straddling-every-4096-byte-boundary-of-set-input", 0usize), ("crlf-line-endings-straddling-every-4096-byte-boundary-of-map-input", 2)].iter() {
        let mut rows: Vec<(String, u64)> = vec![];
        let mut off = 0usize;
        let mut c = 0usize;
        while off < 40 * 4096 {
            let m = off / 4096 + 1;
            let delta = [0isize, -1, 1][(m / 2) % 3];
            // the CR of this line sits at off + L + extra; wanted: 4096 m - 1 + delta
            let r = (4096 * m) as isize - 1 + delta - off as isize - *extra as isize;
            let l = if r >= 6 && r <= 26 { r as usize } else { 6 + rng.usize(7) };
            let mut k = format!("{:05x}", c);
            while k.len() < l {
                k.push(*rng.pick(b"ghijklmnopqrstuvwxyz") as char);
            }
            rows.push((k, (c % 10) as u64));
            c += 1;
            off += l + extra + 2;
        }
        out.push(Input { name, files: vec![rows], same_path_twice: false, terminators: 1 });
    }
    // more batches in one phase than a 15-bit counter or a 32768-slot queue holds
    out.push(Input { name: "forty-thousand-rows-for-batch-size-1", files: vec![uniq(40_000, &mut rng)], same_path_twice: false, terminators: 0 });
    out.push(Input { name: "one-row", files: vec![vec![("solo".to_string(), 77)]], same_path_twice: false, terminators: 0 });
    out.push(Input { name: "empty-input", files: vec![vec![]], same_path_twice: false, terminators: 0 });
    {
        let keys = uniq(5, &mut rng);
        let rows: Vec<(String, u64)> = (0..200).map(|_| (rng.pick(&keys).0.clone(), rng.below(1 << 20))).collect();
        out.push(Input { name: "five-keys-200-rows", files: vec![rows], same_path_twice: false, terminators: 0 });
    }
    out.push(Input { name: "all-identical-rows", files: vec![vec![("same".to_string(), 3); 25]], same_path_twice: false, terminators: 0 });
    {
        let mut rows = uniq(120, &mut rng);
        rows.sort();
        out.push(Input { name: "already-sorted", files: vec![rows.clone()], same_path_twice: false, terminators: 0 });
        rows.reverse();
        out.push(Input { name: "reverse-sorted", files: vec![rows], same_path_twice: false, terminators: 0 });
    }
    {
        let n = ctx.tier.pick(3000, 100_000);
        let base = uniq(n * 7 / 10, &mut rng);
        let mut rows = base.clone();
        for _ in 0..n * 3 / 10 {
            rows.push((rng.pick(&base).0.clone(), rng.below(1 << 32)));
        }
        // shuffle
        for i in (1..rows.len()).rev() {
            let j = rng.usize(i + 1);
            rows.swap(i, j);
        }
        out.push(Input { name: "large-30pct-repeats", files: vec![rows], same_path_twice: false, terminators: 0 });
    }
    out
}

/// the key as it is written to the input file and expected in the output (see the "bom-" input shape)
fn key_in_mode<'a>(inp: &Input, mode: Mode, k: &'a str) -> &'a str {
    if mode != Mode::Set && inp.name.starts_with("bom-") {
        k.trim_start_matches('\u{feff}')
    } else {
        k
    }
}

fn model(inp: &Input, mode: Mode) -> BTreeMap<Vec<u8>, u64> {
    let mut m: BTreeMap<Vec<u8>, u64> = BTreeMap::new();
    for f in &inp.files {
        for (k, v) in f {
            let k = key_in_mode(inp, mode, k);
            let v = if mode == Mode::Set { 0 } else { *v };
            m.entry(k.as_bytes().to_vec())
                .and_modify(|e| {
                    *e = match mode {
                        Mode::Set => 0,
                        Mode::Sum => *e + v,
                        Mode::Max => (*e).max(v),
                        Mode::Min => (*e).min(v),
                    }
                })
                .or_insert(v);
        }
    }
    m
}

struct RunCfg {
    batch: usize,
    fd: usize,
    threads: usize,
    mode: Mode,
    delay_seed: Option<u64>,
    /// the destination already exists and is much longer than the result
    stale_output: bool,
    /// the scratch directory ($TMPDIR) lies on another file system than the destination (if this machine has one)
    tmp_elsewhere: bool,
    /// 0 = --batch-size/--fd-limit/--threads given explicitly; 1 = none of them given (the tool's own defaults);
    /// 2 = none given and the process is confined to ONE cpu (taskset), as in a small container
    defaults: u8,
}

struct Outcome {
    /// $TMPDIR really was on another file system in this run
    tmp_was_elsewhere: bool,
    status: Option<i32>,
    /// every thread asleep and not a single CPU tick consumed for 8 consecutive seconds (logical quiescence, not a deadline)
    deadlocked: bool,
    timed_out: bool,
    stderr: String,
    output: Option<Vec<u8>>,
    trace: String,
}

/// `taskset -c <first cpu this process may use>`, or nothing when taskset is not installed
fn one_cpu_wrapper() -> Vec<String> {
    let status = std::fs::read_to_string("/proc/self/status").unwrap_or_default();
    let cpu = status.lines().find(|l| l.starts_with("Cpus_allowed_list:")).and_then(|l| l.split(':').nth(1)).map(|v| v.trim().split(|c| c == ',' || c == '-').next().unwrap_or("0").to_string()).unwrap_or_else(|| "0".into());
    for dir in ["/usr/bin", "/bin", "/usr/local/bin"].iter() {
        let p = Path::new(dir).join("taskset");
        if p.exists() {
            return vec![p.to_string_lossy().to_string(), "-c".into(), cpu];
        }
    }
    vec![]
}

fn run_fst(bin: &Path, dir: &Path, inp: &Input, cfg: &RunCfg, extra_env: &[(String, String)], wrapper: &[String]) -> Outcome {
    let _ = std::fs::remove_dir_all(dir);
    std::fs::create_dir_all(dir.join("tmp")).unwrap();
    let mut files: Vec<PathBuf> = vec![];
    for (i, rows) in inp.files.iter().enumerate() {
        if inp.same_path_twice && i == 1 {
            // files[1] is files[0] again: pass the very same path a second time
            let first: PathBuf = files[0].clone();
            files.push(first);
            continue;
        }
        let p = dir.join(format!("in{}.txt", i));
        let mut text = String::new();
        for (ri, (k, v)) in rows.iter().enumerate() {
            let k = key_in_mode(inp, cfg.mode, k);
            if cfg.mode == Mode::Set {
                text.push_str(k);
            } else {
                text.push_str(&format!("{},{}", k, v));
            }
            match inp.terminators {
                1 => text.push_str("\r\n"),
                2 if ri + 1 == rows.len() => {}
                _ => text.push('\n'),
            }
        }
        std::fs::write(&p, text).unwrap();
        files.push(p);
    }
    let out = dir.join("out.fst");
    let trace = dir.join("trace.txt");
    if cfg.stale_output {
        // --force must replace an existing (longer) destination file completely
        std::fs::write(&out, vec![0xABu8; 300_000]).unwrap();
    }
    let one_cpu: Vec<String> = if cfg.defaults == 2 && wrapper.is_empty() { one_cpu_wrapper() } else { vec![] };
    let wrapper: &[String] = if one_cpu.is_empty() { wrapper } else { &one_cpu };
    let mut cmd = if wrapper.is_empty() {
        Command::new(bin)
    } else {
        let mut c = Command::new(&wrapper[0]);
        c.args(&wrapper[1..]);
        c.arg(bin);
        c
    };
    cmd.arg(if cfg.mode == Mode::Set { "set" } else { "map" });
    for f in &files {
        cmd.arg(f);
    }
    cmd.arg(&out).arg("--force");
    if cfg.defaults == 0 {
        cmd.arg("--batch-size").arg(cfg.batch.to_string()).arg("--fd-limit").arg(cfg.fd.to_string()).arg("--threads").arg(cfg.threads.to_string());
    }
    match cfg.mode {
        Mode::Max => {
            cmd.arg("--max");
        }
        Mode::Min => {
            cmd.arg("--min");
        }
        _ => {}
    }
    // the scratch directory: next to the destination, or - when asked for and this machine has one - on another file system
    // (a tmpfs), so that moving the result into place has to cross a file system boundary
    let mut tmpdir = dir.join("tmp");
    let mut elsewhere: Option<PathBuf> = None;
    if cfg.tmp_elsewhere {
        if let Some(other) = other_filesystem_dir(dir) {
            let d = other.join(format!("fstmon-c19-{}-{}", std::process::id(), dir.file_name().and_then(|n| n.to_str()).unwrap_or("t")));
            let _ = std::fs::remove_dir_all(&d);
            if std::fs::create_dir_all(&d).is_ok() {
                tmpdir = d.clone();
                elsewhere = Some(d);
            }
        }
    }
    cmd.env("TMPDIR", &tmpdir).env("FST_VERIF_TRACE", &trace).stdin(Stdio::null()).stdout(Stdio::null()).stderr(Stdio::piped());
    if let Some(s) = cfg.delay_seed {
        cmd.env("FST_VERIF_SEED", s.to_string());
    } else {
        cmd.env_remove("FST_VERIF_SEED");
    }
    for (k, v) in extra_env {
        cmd.env(k, v);
    }
    let start = Instant::now();
    let mut child = match cmd.spawn() {
        Ok(c) => c,
        Err(e) => return Outcome { status: None, deadlocked: false, timed_out: true, stderr: format!("spawn failed: {}", e), output: None, trace: String::new(), tmp_was_elsewhere: false },
    };
    let limit = Duration::from_secs(if wrapper.is_empty() { 120 } else { 900 });
    let mut timed_out = false;
    let mut deadlocked = false;
    let mut last_probe = Instant::now();
    let mut last_ticks: Option<u64> = None;
    let mut quiet_samples = 0;
    let status = loop {
        match child.try_wait() {
            Ok(Some(st)) => break st.code(),
            Ok(None) => {
                if wrapper.is_empty() && last_probe.elapsed() > Duration::from_secs(1) {
                    last_probe = Instant::now();
                    match proc_state(child.id()) {
                        Some((ticks, all_asleep)) => {
                            if all_asleep && last_ticks == Some(ticks) {
                                quiet_samples += 1;
                            } else {
                                quiet_samples = 0;
                            }
                            last_ticks = Some(ticks);
                        }
                        None => quiet_samples = 0,
                    }
                    if quiet_samples >= 8 {
                        let _ = child.kill();
                        let _ = child.wait();
                        deadlocked = true;
                        break None;
                    }
                }
                if start.elapsed() > limit {
                    let _ = child.kill();
                    let _ = child.wait();
                    timed_out = true;
                    break None;
                }
                std::thread::sleep(Duration::from_millis(5));
            }
            Err(_) => break None,
        }
    };
    let mut stderr = String::new();
    if let Some(mut e) = child.stderr.take() {
        use std::io::Read;
        let _ = e.read_to_string(&mut stderr);
    }
    let tmp_was_elsewhere = elsewhere.is_some();
    if let Some(d) = elsewhere {
        let _ = std::fs::remove_dir_all(&d);
    }
    Outcome { status, deadlocked, timed_out, stderr, output: std::fs::read(&out).ok(), trace: std::fs::read_to_string(&trace).unwrap_or_default(), tmp_was_elsewhere }
}

/// a writable directory on a different file system than `here` (device numbers differ), if this machine has one
fn other_filesystem_dir(here: &Path) -> Option<PathBuf> {
    use std::os::unix::fs::MetadataExt;
    let dev = std::fs::metadata(here).ok()?.dev();
    for cand in ["/dev/shm", "/run/shm", "/run/user/0"].iter() {
        let p = Path::new(cand);
        if let Ok(m) = std::fs::metadata(p) {
            if m.is_dir() && m.dev() != dev {
                let probe = p.join(format!(".fstmon-probe-{}", std::process::id()));
                if std::fs::write(&probe, b"x").is_ok() {
                    let _ = std::fs::remove_file(&probe);
                    return Some(p.to_path_buf());
                }
            }
        }
    }
    None
}

/// (CPU ticks consumed by the process so far, every thread is in state S) from /proc
fn proc_state(pid: u32) -> Option<(u64, bool)> {
    let stat = std::fs::read_to_string(format!("/proc/{}/stat", pid)).ok()?;
    let after = &stat[stat.rfind(')')? + 2..];
    let f: Vec<&str> = after.split_whitespace().collect();
    let ticks = f.get(11)?.parse::<u64>().ok()? + f.get(12)?.parse::<u64>().ok()?;
    let mut all_asleep = true;
    for e in std::fs::read_dir(format!("/proc/{}/task", pid)).ok()?.filter_map(|e| e.ok()) {
        if let Ok(s) = std::fs::read_to_string(e.path().join("stat")) {
            if let Some(p) = s.rfind(')') {
                if s[p + 2..].split_whitespace().next() != Some("S") {
                    all_asleep = false;
                }
            }
        }
    }
    Some((ticks, all_asleep))
}

/// Offline conservation checker over the H4 trace: the input rows are accounted for by the leaf batches, every
/// intermediate file is consumed by exactly one union of the next generation, nothing is consumed that was not
/// produced, and exactly one file (the result) is never consumed. Returns a description of the first breach.
fn conservation(trace: &str, total_rows: usize, distinct_keys: usize) -> Option<String> {
    let base = |p: &str| p.rsplit('/').next().unwrap_or(p).to_string();
    let mut produced: BTreeMap<String, usize> = BTreeMap::new();
    let mut consumed: BTreeMap<String, usize> = BTreeMap::new();
    let mut rows = 0usize;
    for l in trace.lines() {
        let mut kind = "";
        let mut fields: BTreeMap<&str, &str> = BTreeMap::new();
        for tok in l.split_whitespace() {
            if tok == "kv" || tok == "union" {
                kind = tok;
            } else if let Some(p) = tok.find('=') {
                fields.insert(&tok[..p], &tok[p + 1..]);
            }
        }
        if kind.is_empty() {
            continue;
        }
        *produced.entry(base(fields.get("out").unwrap_or(&""))).or_insert(0) += 1;
        if kind == "kv" {
            rows += fields.get("rows").and_then(|s| s.parse::<usize>().ok()).unwrap_or(0);
        } else {
            for i in fields.get("inputs").unwrap_or(&"").split(',').filter(|s| !s.is_empty()) {
                *consumed.entry(base(i)).or_insert(0) += 1;
            }
        }
    }
    // the hook logs a leaf batch after its rows were sorted and de-duplicated, so the logged rows lie between the
    // number of distinct keys and the number of input rows
    if rows > total_rows || rows < distinct_keys {
        return Some(format!("leaf batches hold {} (de-duplicated) rows but the input has {} rows with {} distinct keys", rows, total_rows, distinct_keys));
    }
    if let Some((f, n)) = produced.iter().find(|(_, n)| **n > 1) {
        return Some(format!("intermediate file {} was produced {} times (name collision)", f, n));
    }
    if let Some((f, n)) = consumed.iter().find(|(_, n)| **n > 1) {
        return Some(format!("intermediate file {} was consumed by {} unions", f, n));
    }
    if let Some((f, _)) = consumed.iter().find(|(f, _)| !produced.contains_key(*f)) {
        return Some(format!("a union consumed {} which no batch produced", f));
    }
    let roots: Vec<&String> = produced.keys().filter(|f| !consumed.contains_key(*f)).collect();
    if total_rows > 0 && roots.len() != 1 {
        return Some(format!("{} files were produced but never consumed (exactly one result expected): {:?}", roots.len(), roots.iter().take(4).collect::<Vec<_>>()));
    }
    None
}

/// canonical merge tree from the H4 trace: returns (tree fingerprint, worker-assignment fingerprint, #kv batches, #unions, generations)
fn merge_tree(trace: &str) -> (u64, u64, usize, usize, usize) {
    // file name -> canonical string
    let mut canon: BTreeMap<String, String> = BTreeMap::new();
    let mut assign: Vec<(String, String)> = vec![];
    let mut nkv = 0;
    let mut nun = 0;
    let mut gens = 0;
    let base = |p: &str| p.rsplit('/').next().unwrap_or(p).to_string();
    let mut unions: Vec<(usize, String, Vec<String>)> = vec![];
    for l in trace.lines() {
        let mut thread = String::new();
        let mut kind = "";
        let mut fields: BTreeMap<&str, &str> = BTreeMap::new();
        for (i, tok) in l.split_whitespace().enumerate() {
            if i == 0 {
                thread = tok.to_string();
            } else if tok == "kv" || tok == "union" {
                kind = tok;
            } else if let Some(p) = tok.find('=') {
                fields.insert(&tok[..p], &tok[p + 1..]);
            }
        }
        match kind {
            "kv" => {
                nkv += 1;
                let out = base(fields.get("out").unwrap_or(&""));
                canon.insert(out.clone(), format!("L{}", fields.get("index").unwrap_or(&"?")));
                assign.push((out, thread));
            }
            "union" => {
                nun += 1;
                let g: usize = fields.get("gen").and_then(|s| s.parse().ok()).unwrap_or(0);
                gens = gens.max(g + 1);
                let out = base(fields.get("out").unwrap_or(&""));
                let ins: Vec<String> = fields.get("inputs").unwrap_or(&"").split(',').filter(|s| !s.is_empty()).map(base).collect();
                assign.push((out.clone(), thread));
                unions.push((g, out, ins));
            }
            _ => {}
        }
    }
    unions.sort();
    let mut last = String::new();
    for (_, out, ins) in unions {
        let mut kids: Vec<String> = ins.iter().map(|i| canon.get(i).cloned().unwrap_or_else(|| format!("?{}", i))).collect();
        kids.sort();
        let c = format!("U({})", kids.join(","));
        last = c.clone();
        canon.insert(out, c);
    }
    if last.is_empty() {
        last = canon.values().cloned().collect::<Vec<_>>().join("|");
    }
    // worker assignment: which batches shared a thread (thread ids renamed by first appearance)
    assign.sort();
    let mut names: BTreeMap<String, usize> = BTreeMap::new();
    let mut a = String::new();
    for (out, th) in &assign {
        let n = names.len();
        let id = *names.entry(th.clone()).or_insert(n);
        a.push_str(&format!("{}@{};", out, id));
    }
    (crate::rng::fnv(last.as_bytes()), crate::rng::fnv(a.as_bytes()), nkv, nun, gens)
}

/// the command line's own sorted build (`fst set|map <sorted file> <out> --sorted --force`), optionally over an existing longer file
fn cli_sorted_build(bin: &Path, dir: &Path, m: &BTreeMap<Vec<u8>, u64>, mode: Mode, over_longer: bool) -> Result<Vec<u8>, String> {
    let _ = std::fs::create_dir_all(dir);
    let inp = dir.join("sorted-input.txt");
    let out = dir.join("sorted-output.fst");
    let mut text = Vec::new();
    for (k, v) in m {
        text.extend_from_slice(k);
        if mode != Mode::Set {
            text.extend_from_slice(format!(",{}", v).as_bytes());
        }
        text.push(b'\n');
    }
    std::fs::write(&inp, &text).map_err(|e| e.to_string())?;
    let _ = std::fs::remove_file(&out);
    if over_longer {
        std::fs::write(&out, vec![0xA5u8; 200_000]).map_err(|e| e.to_string())?;
    }
    let o = Command::new(bin)
        .arg(if mode == Mode::Set { "set" } else { "map" })
        .arg(&inp)
        .arg(&out)
        .arg("--sorted")
        .arg("--force")
        .env_remove("FST_VERIF_SEED")
        .env_remove("FST_VERIF_TRACE")
        .stdin(Stdio::null())
        .output()
        .map_err(|e| format!("spawn failed: {}", e))?;
    if !o.status.success() {
        return Err(format!("`fst {} --sorted` exited with {:?}: {}", if mode == Mode::Set { "set" } else { "map" }, o.status.code(), String::from_utf8_lossy(&o.stderr).lines().last().unwrap_or("")));
    }
    std::fs::read(&out).map_err(|e| e.to_string())
}

fn sorted_build(m: &BTreeMap<Vec<u8>, u64>, mode: Mode) -> Vec<u8> {
    if mode == Mode::Set {
        let mut b = SetBuilder::memory();
        for k in m.keys() {
            b.insert(k).unwrap();
        }
        b.into_inner().unwrap()
    } else {
        let mut b = MapBuilder::memory();
        for (k, v) in m {
            b.insert(k, *v).unwrap();
        }
        b.into_inner().unwrap()
    }
}

fn judge(inp: &Input, cfg: &RunCfg, o: &Outcome, ev: &mut Ev, trees: &mut HashSet<u64>, assigns: &mut HashSet<u64>) {
    let descr = || {
        J::obj(vec![
            ("input", J::s(inp.name)),
            ("rows", J::U(inp.files.iter().map(|f| f.len()).sum::<usize>() as u64)),
            ("files", J::A(inp.files.iter().map(|f| J::U(f.len() as u64)).collect())),
            ("first_rows", J::A(inp.files.iter().flatten().take(12).map(|(k, v)| J::s(format!("{},{}", k, v))).collect())),
            ("mode", J::s(format!("{:?}", cfg.mode))),
            ("batch_size", J::U(cfg.batch as u64)),
            ("fd_limit", J::U(cfg.fd as u64)),
            ("threads", J::U(cfg.threads as u64)),
            ("delay_seed", cfg.delay_seed.map(J::U).unwrap_or(J::Null)),
            ("destination_existed_and_was_longer", J::Bool(cfg.stale_output)),
        ])
    };
    if o.deadlocked {
        ev.eval(None);
        ev.count("runs");
        ev.violate("deadlock", format!("fst never finished: all of its threads were asleep and it consumed no CPU time for 8 consecutive seconds ({} trace lines so far)", o.trace.lines().count()), descr());
        return;
    }
    if o.timed_out {
        ev.count("runs:watchdog(inconclusive)");
        return;
    }
    ev.eval(None);
    ev.distinct_extra += 1;
    ev.count("runs");
    ev.count(&format!("runs:mode={:?}", cfg.mode));
    if cfg.stale_output {
        ev.count("runs:overwriting-a-longer-existing-output");
    }
    if o.tmp_was_elsewhere {
        ev.count("runs:scratch-directory-on-another-file-system");
    }
    if o.status != Some(0) {
        ev.violate("exit-status", format!("fst exited with {:?}: {}", o.status, o.stderr.lines().last().unwrap_or("")), descr());
        return;
    }
    let bytes = match &o.output {
        Some(b) => b,
        None => {
            ev.violate("no-output", "fst exited 0 but wrote no output file".into(), descr());
            return;
        }
    };
    let want = model(inp, cfg.mode);
    let total_rows: usize = inp.files.iter().map(|f| f.len()).sum();
    if !o.trace.is_empty() || total_rows == 0 {
        ev.count("trace:conservation-checked");
        // An anomaly in the trace (a re-used temp name, an intermediate consumed twice or never) need not change the
        // output (e.g. in set/max mode), and the property speaks about the output only: anomalies are recorded as
        // evidence and attached to output violations, they are not violations themselves.
        if let Some(why) = conservation(&o.trace, total_rows, want.len()) {
            ev.count("trace:conservation-anomalies(recorded, not judged)");
            if ev.samples.len() < 4 {
                ev.sample(J::obj(vec![("trace_anomaly", J::s(why)), ("run", descr())]));
            }
        }
    }
    let (tree, assign, nkv, nun, gens) = merge_tree(&o.trace);
    trees.insert(tree);
    assigns.insert(assign);
    ev.add("trace:kv-batches", nkv as u64);
    ev.add("trace:union-batches", nun as u64);
    ev.max("max:union-generations", gens as u64);
    let has_dup_in_batch = inp.files.iter().flatten().map(|r| &r.0).collect::<Vec<_>>().windows(2).any(|w| w[0] == w[1]);
    let sig_hint = if cfg.mode == Mode::Min && gens >= 1 { "min-with-unions" } else if has_dup_in_batch && cfg.batch > 1 { "dup-in-batch" } else { "other" };
    let r = guard(|| -> Result<(), String> {
        let f = Fst::new(&bytes[..]).map_err(|e| format!("output does not open: {}", e))?;
        f.verify().map_err(|e| format!("output fails verify(): {}", e))?;
        let got = f.stream().into_byte_vec();
        let gk: Vec<&Vec<u8>> = got.iter().map(|(k, _)| k).collect();
        let wk: Vec<&Vec<u8>> = want.keys().collect();
        if gk != wk {
            return Err(format!("keys differ: output has {} keys, the input has {} distinct keys", gk.len(), wk.len()));
        }
        for ((k, v), (_, w)) in got.iter().zip(want.iter()) {
            if v != w {
                return Err(format!("value of key {} is {} but the {:?}-merge of all its rows is {} [{}]", crate::json::show_bytes(k), v, cfg.mode, w, sig_hint));
            }
        }
        if f.len() != want.len() {
            return Err(format!("len() = {} but {} distinct keys", f.len(), want.len()));
        }
        Ok(())
    });
    match r {
        Err(p) => ev.violate("reader-panic", p, descr()),
        Ok(Err(e)) => ev.violate(if e.contains("value of key") { "merged-value" } else { "output-content" }, e, descr()),
        Ok(Ok(())) => {
            // inputs without repeated keys: byte-identical to a sorted build
            let rows: usize = inp.files.iter().map(|f| f.len()).sum();
            if rows == want.len() {
                ev.count("runs:no-repeat-inputs-compared-bytewise");
                if *bytes != sorted_build(&want, cfg.mode) {
                    ev.violate("not-identical-to-sorted-build", "input without repeated keys: output bytes differ from a sorted build of the same data".into(), descr());
                }
            }
        }
    }
}

fn count_reports(dir: &Path, prefix: &str, needle: &str) -> (usize, String) {
    let mut n = 0;
    let mut first = String::new();
    if let Ok(rd) = std::fs::read_dir(dir) {
        for e in rd.filter_map(|e| e.ok()) {
            if e.file_name().to_string_lossy().starts_with(prefix) {
                let t = std::fs::read_to_string(e.path()).unwrap_or_default();
                let c = t.matches(needle).count();
                if c > 0 && first.is_empty() {
                    first = t.lines().take(30).collect::<Vec<_>>().join("\n");
                }
                n += c;
            }
        }
    }
    (n, first)
}

pub fn run(ctx: &Ctx) -> i32 {
    let bin = match std::env::var_os("FST_BIN") {
        Some(b) => PathBuf::from(b),
        None => {
            println!("INCONCLUSIVE property=C19 FST_BIN not set (run through ./check)");
            return 2;
        }
    };
    let mut ins = inputs(ctx);
    let scratch = ctx.root.join("target").join("tmp").join(format!("c19-{}", std::process::id()));
    let nruns = ctx.tier.pick(320, 4000);
    // deterministic run list
    let mut plan: Vec<(usize, RunCfg)> = vec![];
    {
        let mut rng = Rng::new(ctx.seed, 0xC19_1);
        let batches = [1usize, 2, 3, 7, 1_000_000];
        let fds = [2usize, 3, 15];
        let ths = [1usize, 2, 5, 16];
        let modes = [Mode::Set, Mode::Sum, Mode::Max, Mode::Min];
        // a systematic core: every input x every mode x every batch size once
        for (ii, _) in ins.iter().enumerate() {
            for (mi, m) in modes.iter().enumerate() {
                for (bi, b) in batches.iter().enumerate() {
                    let big = ins[ii].files.iter().map(|f| f.len()).sum::<usize>() > 1000;
                    if big && *b < 7 {
                        continue;
                    }
                    plan.push((ii, RunCfg { batch: *b, fd: fds[(ii + mi + bi) % 3], threads: ths[(ii + bi) % 4], mode: *m, delay_seed: Some(rng.next() % 1_000_000), stale_output: (ii + mi + bi) % 4 == 0, tmp_elsewhere: (ii + mi + bi) % 3 == 1, defaults: 0 }));
                }
            }
        }
        // thousands of batches in one phase
        if let Some(ii) = ins.iter().position(|i| i.name.starts_with("forty-thousand-rows")) {
            plan.push((ii, RunCfg { batch: 1, fd: 15, threads: 4, mode: Mode::Set, delay_seed: None, stale_output: false, tmp_elsewhere: false, defaults: 0 }));
        }
        if let Some(ii) = ins.iter().position(|i| i.name.starts_with("six-thousand-rows")) {
            plan.push((ii, RunCfg { batch: 1, fd: 15, threads: 4, mode: Mode::Set, delay_seed: None, stale_output: false, tmp_elsewhere: false, defaults: 0 }));
            plan.push((ii, RunCfg { batch: 1, fd: 3, threads: 2, mode: Mode::Sum, delay_seed: None, stale_output: true, tmp_elsewhere: false, defaults: 0 }));
        }
        // the tool's own defaults (no --batch-size / --fd-limit / --threads), on all cpus and confined to one cpu
        for (ii, inp) in ins.iter().enumerate() {
            let rows: usize = inp.files.iter().map(|f| f.len()).sum();
            if rows > 7000 || ii % 3 == 2 {
                continue;
            }
            for (mi, m) in modes.iter().enumerate() {
                if (ii + mi) % 2 == 0 {
                    plan.push((ii, RunCfg { batch: 100_000, fd: 15, threads: 0, mode: *m, delay_seed: None, stale_output: mi == 1, tmp_elsewhere: false, defaults: 1 + ((ii / 3 + mi) % 2) as u8 }));
                }
            }
        }
        while plan.len() < nruns {
            let ii = rng.usize(ins.len());
            let big = ins[ii].files.iter().map(|f| f.len()).sum::<usize>() > 1000;
            let b = if big { *rng.pick(&[7usize, 50, 1000, 1_000_000]) } else { *rng.pick(&batches) };
            plan.push((ii, RunCfg { batch: b, fd: *rng.pick(&fds), threads: *rng.pick(&ths), mode: *rng.pick(&modes), delay_seed: if rng.chance(1, 8) { None } else { Some(rng.next() % 1_000_000) }, stale_output: false, tmp_elsewhere: false, defaults: 0 }));
        }
    }
    // the number of batches in one phase around every power of the fan-in (f^k - 1, f^k, f^k + 1, f^k + 2, batch size 1): how many
    // merge generations are needed is arithmetic on these two numbers
    {
        let mut rng = Rng::new(ctx.seed, 0xC19_5);
        let mut seen = HashSet::new();
        for &f in [2usize, 3, 4, 5, 7, 10].iter() {
            let mut p = f;
            while p <= 1100 {
                for nb in [p - 1, p, p + 1, p + 2].iter().cloned() {
                    if nb < 1 || !seen.insert((f, nb)) {
                        continue;
                    }
                    let mut keys = HashSet::new();
                    let mut rows = vec![];
                    while rows.len() < nb {
                        let k = key(&mut rng);
                        if keys.insert(k.clone()) {
                            rows.push((k, rng.below(1 << 20)));
                        }
                    }
                    ins.push(Input { name: "batch-count-around-a-power-of-the-fan-in", files: vec![rows], same_path_twice: false, terminators: 0 });
                    plan.push((ins.len() - 1, RunCfg { batch: 1, fd: f, threads: [1usize, 4][(p + nb) % 2], mode: [Mode::Set, Mode::Sum][(nb / 2) % 2], delay_seed: None, stale_output: false, tmp_elsewhere: false, defaults: 0 }));
                }
                p *= f;
            }
        }
    }
    let nplan = plan.len();
    let results: Vec<(Ev, HashSet<u64>, HashSet<u64>)> = std::thread::scope(|s| {
        let hs: Vec<_> = (0..ctx.threads.min(12))
            .map(|t| {
                let plan = &plan;
                let ins = &ins;
                let bin = &bin;
                let scratch = &scratch;
                let nt = ctx.threads.min(12);
                s.spawn(move || {
                    let mut ev = Ev::new();
                    let mut trees = HashSet::new();
                    let mut assigns = HashSet::new();
                    for (pi, (ii, cfg)) in plan.iter().enumerate() {
                        if pi % nt != t {
                            continue;
                        }
                        let dir = scratch.join(format!("t{}", t));
                        let o = run_fst(bin, &dir, &ins[*ii], cfg, &[], &[]);
                        match cfg.defaults {
                            1 => ev.count("runs:with-the-tools-default-options"),
                            2 => ev.count(if one_cpu_wrapper().is_empty() { "runs:with-the-tools-default-options" } else { "runs:with-the-tools-default-options-confined-to-one-cpu" }),
                            _ => {}
                        }
                        if ins[*ii].name.starts_with("batch-count-around") {
                            ev.count("runs:batch-count-around-a-power-of-the-fan-in");
                        }
                        judge(&ins[*ii], cfg, &o, &mut ev, &mut trees, &mut assigns);
                        // inputs without repeated keys: byte-identical to the command line's OWN sorted build of the same data
                        // (every 3rd such run; half of the sorted builds overwrite a longer existing file)
                        if pi % 3 == 0 && o.status == Some(0) && !o.timed_out && !o.deadlocked {
                            if let Some(bytes) = &o.output {
                                let want = model(&ins[*ii], cfg.mode);
                                let rows: usize = ins[*ii].files.iter().map(|f| f.len()).sum();
                                if rows == want.len() && rows > 0 {
                                    let over = pi % 2 == 0;
                                    ev.eval(None);
                                    ev.distinct_extra += 1;
                                    match cli_sorted_build(bin, &dir, &want, cfg.mode, over) {
                                        Ok(sb) => {
                                            ev.count("runs:compared-with-the-cli-sorted-build");
                                            if &sb != bytes {
                                                ev.violate(
                                                    "not-identical-to-sorted-build",
                                                    format!("input without repeated keys: the unsorted build ({} bytes) differs from `fst {} --sorted --force` of the same data ({} bytes{})", bytes.len(), if cfg.mode == Mode::Set { "set" } else { "map" }, sb.len(), if over { ", written over an existing longer file" } else { "" }),
                                                    J::obj(vec![("input", J::s(ins[*ii].name)), ("mode", J::s(format!("{:?}", cfg.mode))), ("sorted_build_over_existing_longer_file", J::Bool(over))]),
                                                );
                                            }
                                        }
                                        Err(e) => {
                                            if e.starts_with("spawn failed") {
                                                ev.count("runs:cli-sorted-build-not-started");
                                            } else {
                                                ev.violate("exit-status", format!("the sorted reference build failed: {}", e), J::obj(vec![("input", J::s(ins[*ii].name)), ("mode", J::s(format!("{:?}", cfg.mode)))]));
                                            }
                                        }
                                    }
                                }
                            }
                        }
                        if pi % 97 == 11 {
                            ev.sample(J::obj(vec![("input", J::s(ins[*ii].name)), ("mode", J::s(format!("{:?}", cfg.mode))), ("batch_size", J::U(cfg.batch as u64)), ("fd_limit", J::U(cfg.fd as u64)), ("threads", J::U(cfg.threads as u64)), ("trace_head", J::s(o.trace.lines().take(4).collect::<Vec<_>>().join(" | ")))]));
                        }
                    }
                    (ev, trees, assigns)
                })
            })
            .collect();
        hs.into_iter().map(|h| h.join().unwrap()).collect()
    });
    let mut ev = Ev::new();
    let mut trees = HashSet::new();
    let mut assigns = HashSet::new();
    for (e, t, a) in results {
        ev.merge(e);
        trees.extend(t);
        assigns.extend(a);
    }
    // the same (input, parameters) under many delay seeds: how many distinct merge trees does scheduling produce?
    {
        let ii = 1; // no-repeats-500
        let mut local = HashSet::new();
        for s in 0..ctx.tier.pick(24, 200) {
            let cfg = RunCfg { batch: 7, fd: 3, threads: 5, mode: Mode::Sum, delay_seed: Some(ctx.seed * 1000 + s), stale_output: false, tmp_elsewhere: false, defaults: 0 };
            let o = run_fst(&bin, &scratch.join("seeds"), &ins[ii], &cfg, &[], &[]);
            let (tree, _, _, _, _) = merge_tree(&o.trace);
            local.insert(tree);
            judge(&ins[ii], &cfg, &o, &mut ev, &mut trees, &mut assigns);
        }
        ev.add("distinct-merge-trees:same-input-and-parameters-different-delay-seeds", local.len() as u64);
    }
    ev.add("distinct-merge-trees-observed", trees.len() as u64);
    ev.add("distinct-worker-assignments-observed", assigns.len() as u64);
    ev.fps.extend(trees.iter().cloned());
    // sanitizer runs (thorough; binaries provided by ./check)
    if let Some(tsan) = std::env::var_os("FST_BIN_TSAN") {
        let tsan = PathBuf::from(tsan);
        let dir = scratch.join("tsan");
        let logdir = scratch.join("tsan-logs");
        let _ = std::fs::create_dir_all(&logdir);
        let mut rng = Rng::new(ctx.seed, 0x75a9);
        let n = ctx.tier.pick(12, 200);
        for r in 0..n {
            let ii = rng.usize(ins.len() - 1);
            let cfg = RunCfg { batch: *rng.pick(&[1usize, 2, 3, 7]), fd: *rng.pick(&[2usize, 3]), threads: *rng.pick(&[2usize, 5, 16]), mode: *rng.pick(&[Mode::Set, Mode::Sum, Mode::Min]), delay_seed: Some(r as u64), stale_output: false, tmp_elsewhere: false, defaults: 0 };
            let env = vec![("TSAN_OPTIONS".to_string(), format!("halt_on_error=0 exitcode=0 log_path={}/tsan", logdir.display()))];
            let o = run_fst(&tsan, &dir, &ins[ii], &cfg, &env, &[]);
            ev.count("tsan:runs");
            judge(&ins[ii], &cfg, &o, &mut ev, &mut trees, &mut assigns);
        }
        let (reports, first) = count_reports(&logdir, "tsan", "WARNING: ThreadSanitizer");
        ev.add("tsan:reports", reports as u64);
        if reports > 0 {
            ev.violate("tsan-report", format!("ThreadSanitizer reported {} issue(s) in fst-bin:\n{}", reports, first), J::s(first.clone()));
        }
    }
    if std::env::var_os("FST_MEMCHECK").is_some() {
        let dir = scratch.join("memcheck");
        let logdir = scratch.join("memcheck-logs");
        let _ = std::fs::create_dir_all(&logdir);
        let mut rng = Rng::new(ctx.seed, 0x3e3c);
        for r in 0..ctx.tier.pick(2, 30) {
            let ii = [0usize, 2, 3, 4, 7][r % 5];
            let cfg = RunCfg { batch: *rng.pick(&[2usize, 7]), fd: 2, threads: 2, mode: *rng.pick(&[Mode::Set, Mode::Sum, Mode::Max]), delay_seed: None, stale_output: false, tmp_elsewhere: false, defaults: 0 };
            let wrapper: Vec<String> = vec!["valgrind".into(), "--tool=memcheck".into(), "--error-exitcode=0".into(), "-q".into(), format!("--log-file={}/memcheck.%p", logdir.display())];
            let o = run_fst(&bin, &dir, &ins[ii], &cfg, &[], &wrapper);
            ev.count("memcheck:runs");
            judge(&ins[ii], &cfg, &o, &mut ev, &mut trees, &mut assigns);
        }
        let (reports, first) = count_reports(&logdir, "memcheck", "== Invalid ");
        let (reports2, first2) = count_reports(&logdir, "memcheck", "uninitialised");
        ev.add("memcheck:reports", (reports + reports2) as u64);
        if reports + reports2 > 0 {
            ev.violate("memcheck-report", format!("valgrind memcheck reported {} issue(s):\n{}{}", reports + reports2, first, first2), J::Null);
        }
    }
    let _ = std::fs::remove_dir_all(&scratch);
    ev.note("planned_runs", J::U(nplan as u64));
    let trace_alive = ev.get("trace:union-batches") + ev.get("trace:conservation-checked") > 0;
    if !trace_alive {
        ev.count("trace:silent(merge-tree floors not applied)");
    }
    let wd = ev.get("runs:watchdog(inconclusive)");
    if wd > (nplan as u64) / 10 {
        println!("INCONCLUSIVE property=C19 {} subprocess runs hit the watchdog", wd);
    }
    finish(
        ctx,
        ev,
        Spec {
            level: "exploration",
            rule: "(for inputs without repeated keys every third run is also compared byte for byte with the command line's own `--sorted --force` build of the sorted data, half of them written over an existing longer file) one evaluation = one run of the real `fst set|map` binary (unsorted mode) as a subprocess with seeded 0-2 ms delays injected at channel send/receive and around batch construction (hook H4): exit status 0, output opens and verify()s, keys == distinct input keys, every value == sum/max/min over ALL rows of its key, and for inputs without repeated keys the output bytes equal a sorted library build; the H4 batch trace is parsed into the merge tree (which leaf batches met in which union, per generation) and the worker assignment, and an offline conservation checker runs over it and records anomalies as evidence without judging them (the leaf batches together hold between #distinct keys and #rows rows, every intermediate file produced once and consumed by exactly one union, exactly one unconsumed result); inputs: 19 shapes (CRLF line endings, two CRLF files of 160 KB whose line endings straddle every multiple of 4096 bytes (CR last before / LF last before / CR first after the boundary; solved for the lines of `fst set` and of `fst map`), input files without a final newline, the same path listed twice in a row, no repeats, repeats far apart, adjacent repeats incl. identical rows, three input files, five input files of which three are empty, one row, empty, five keys x 200 rows, all identical rows, sorted, reverse sorted, 3000 (thorough 10^5) rows with 30% repeats) x batch sizes {1,2,3,7,all} x fd-limit {2,3,15} x threads {1,2,5,16} x {set,sum,max,min}, plus runs with none of the three options given (the tool's defaults), on all cpus and confined to one cpu by taskset, plus batch size 1 with the number of rows at f^k-1, f^k, f^k+1, f^k+2 for fan-ins f in {2,3,4,5,7,10} up to 1100 batches; a quarter of the runs overwriting an existing longer destination file (--force): a systematic core (every input x mode x batch size) plus random combinations; one fixed configuration is repeated under 24 (200) delay seeds to count how many distinct merge trees scheduling alone produces; thorough adds ThreadSanitizer-instrumented and valgrind-memcheck runs; non-trivial = every run; distinct_nontrivial counts runs (distinct parameter/seed combinations) plus distinct merge trees",
            assumptions: vec!["keys are [a-z0-9]{1,12} (no CSV quoting, no empty lines), values < 2^32 so sums cannot overflow; fd-limit 1 is excluded as in the statement".into(), "interleavings are sampled, not enumerated: the evidence reports how many distinct groupings were actually observed".into(), "a subprocess hitting the 120 s watchdog is inconclusive, never a violation; a deadlock is reported only on logical quiescence (every thread in state S and zero CPU ticks consumed over 8 consecutive one-second samples), not on elapsed time".into()],
            floors: {
                // the merge-tree numbers come from hook H4 in fst-bin/src/merge.rs; a tree whose merge code no longer emits the trace
                // still has its OUTPUT judged, so the trace floors only apply while the trace is alive
                let mut fl: Vec<(&str, u64)> = vec![("runs", 200), ("runs:mode=Set", 20), ("runs:mode=Sum", 20), ("runs:mode=Max", 20), ("runs:mode=Min", 20), ("runs:no-repeat-inputs-compared-bytewise", 20), ("runs:compared-with-the-cli-sorted-build", 10), ("runs:overwriting-a-longer-existing-output", 20)];
                if trace_alive {
                    fl.extend_from_slice(&[("trace:union-batches", 100), ("max:union-generations", 2), ("distinct-merge-trees-observed", 20), ("trace:conservation-checked", 200)]);
                }
                fl
            },
            exhaustive: Some(false),
        },
    )
}
