//! C13 - Construction memory is bounded independently of the number of keys.
//! Allocation monitor: counting global allocator around a build that streams to io::sink().
use crate::allocmeter;
use crate::ctx::{finish, guard, Ctx, Ev, Spec};
use crate::json::J;
use crate::rng::mix;
use fst::raw::Builder;
use std::io;

const CELL: usize = 48; // RegistryCell { addr, BuilderNode { is_final, final_output, Vec } }
const TRANS: usize = 24; // Transition { inp, out, addr }
const FRAME: usize = 72; // BuilderNodeUnfinished

/// a-priori constant from geometry, fan-out and key length (not from measurements)
fn bound(rows: usize, cols: usize, fanout: usize, keylen: usize) -> u64 {
    (rows * cols * (CELL + 2 * fanout * TRANS) + (keylen + 2).next_power_of_two() * (FRAME + 2 * fanout * TRANS) + 64 * 1024 + 2 * keylen.next_power_of_two() * 2) as u64
}

/// writes the i-th key in base `radix` with `len` digits into buf (strictly increasing in i)
fn key_into(buf: &mut [u8], mut i: u64, radix: u64, digits: &[u8]) {
    for p in (0..buf.len()).rev() {
        buf[p] = digits[(i % radix) as usize];
        i /= radix;
    }
}

/// discards everything but accepts only `cap` bytes per call (a legal io::Write)
struct TrickleSink {
    cap: usize,
}
impl io::Write for TrickleSink {
    fn write(&mut self, buf: &[u8]) -> io::Result<usize> {
        Ok(buf.len().min(self.cap))
    }
    fn flush(&mut self) -> io::Result<()> {
        Ok(())
    }
}

#[derive(Clone, Copy, PartialEq)]
enum Shape {
    /// fixed-width digits, but every key is offered 1000 times in a row (sets: a repeat is a no-op)
    Repeats,
    /// two keys only: the first is offered N-1 times in a row, then one more key
    OneKeyManyTimes,
    /// fixed-width digits with strictly DEcreasing values (every insert pushes output down below long-lived nodes)
    Decreasing,
    /// fixed-width digits
    Fixed,
    /// groups of keys in which every key is a proper prefix of the next: d, d/, d/x, d/xy (then the next d)
    PrefixChain,
    /// groups of twelve keys <digits><letter a..l><tail>: the 4-byte tail is the same inside a group (its nodes are looked up a
    /// dozen times while they are fresh) and different from group to group (an unbounded supply of such "popular" nodes)
    GroupedTails,
}

/// how the keys reach the builder
#[derive(Clone, Copy, PartialEq)]
enum Entry {
    Single,
    /// SetBuilder::extend_stream / MapBuilder::extend_stream fed by an on-the-fly streamer
    ExtendStream,
    /// extend_iter fed by an on-the-fly iterator
    ExtendIter,
}

struct GenStream<'a> {
    c: Cfg,
    i: u64,
    buf: Vec<u8>,
    digits: &'a [u8],
}
impl<'a> GenStream<'a> {
    fn fill(&mut self) -> Option<usize> {
        if self.i >= self.c.n {
            return None;
        }
        let i = self.i;
        self.i += 1;
        let len = self.c.len;
        Some(match self.c.shape {
            Shape::Fixed | Shape::Decreasing => {
                key_into(&mut self.buf[..len], i * self.c.stride, self.c.radix, self.digits);
                len
            }
            Shape::Repeats => {
                key_into(&mut self.buf[..len], (i / 1000) * self.c.stride, self.c.radix, self.digits);
                len
            }
            Shape::OneKeyManyTimes => {
                key_into(&mut self.buf[..len], if i + 1 == self.c.n { 7 } else { 3 }, self.c.radix, self.digits);
                len
            }
            Shape::PrefixChain => {
                key_into(&mut self.buf[..len], (i / 4) * self.c.stride, self.c.radix, self.digits);
                self.buf[len] = b'/';
                self.buf[len + 1] = b'x';
                self.buf[len + 2] = b'y';
                len + (i % 4) as usize
            }
            Shape::GroupedTails => {
                let g = i / 12;
                key_into(&mut self.buf[..len], g * self.c.stride, self.c.radix, self.digits);
                self.buf[len] = b'a' + (i % 12) as u8;
                let h = mix(g);
                for t in 0..4 {
                    self.buf[len + 1 + t] = b'a' + ((h >> (5 * t)) % 26) as u8;
                }
                len + 5
            }
        })
    }
}
impl<'s, 'a> fst::Streamer<'s> for GenStream<'a> {
    type Item = &'s [u8];
    fn next(&'s mut self) -> Option<&'s [u8]> {
        let l = self.fill()?;
        Some(&self.buf[..l])
    }
}
struct GenMapStream<'a>(GenStream<'a>);
impl<'s, 'a> fst::Streamer<'s> for GenMapStream<'a> {
    type Item = (&'s [u8], u64);
    fn next(&'s mut self) -> Option<(&'s [u8], u64)> {
        let i = self.0.i;
        let l = self.0.fill()?;
        Some((&self.0.buf[..l], mix(i) >> 20))
    }
}

#[derive(Clone, Copy)]
struct Cfg {
    entry: Entry,
    shape: Shape,
    trickle: Option<usize>,
    n: u64,
    radix: u64,
    len: usize,
    set: bool,
    geom: Option<(usize, usize)>,
    /// key stride (sparser keys share fewer prefixes)
    stride: u64,
}

fn measure(c: Cfg) -> Result<allocmeter::Reading, String> {
    match c.trickle {
        None => measure_on(c, io::sink()),
        Some(cap) => measure_on(c, TrickleSink { cap }),
    }
}

fn measure_on<W: io::Write>(c: Cfg, sink: W) -> Result<allocmeter::Reading, String> {
    let digits: Vec<u8> = if c.radix <= 10 { (b'0'..=b'9').collect() } else if c.radix > 64 { (0x21u8..0x21 + c.radix as u8).collect() } else { b"0123456789ABCDEFGHIJKLMNOPQRSTUVWXYZabcdefghijklmnopqrstuvwxyz{|".to_vec() };
    let mut buf = vec![0u8; c.len + 6];
    if c.entry != Entry::Single {
        // through the Set/Map builders' bulk entry points (default geometry only: they have no geometry hook)
        let sec = allocmeter::start();
        let res: Result<(), String> = (|| {
            if c.set {
                let mut b = fst::SetBuilder::new(sink).map_err(|e| e.to_string())?;
                if c.entry == Entry::ExtendStream {
                    b.extend_stream(GenStream { c, i: 0, buf: vec![0u8; c.len + 6], digits: &digits }).map_err(|e| e.to_string())?;
                } else {
                    let mut g = GenStream { c, i: 0, buf: vec![0u8; c.len + 6], digits: &digits };
                    b.extend_iter(std::iter::from_fn(move || g.fill().map(|l| g.buf[..l].to_vec()))).map_err(|e| e.to_string())?;
                }
                b.finish().map_err(|e| e.to_string())
            } else {
                let mut b = fst::MapBuilder::new(sink).map_err(|e| e.to_string())?;
                if c.entry == Entry::ExtendStream {
                    b.extend_stream(GenMapStream(GenStream { c, i: 0, buf: vec![0u8; c.len + 6], digits: &digits })).map_err(|e| e.to_string())?;
                } else {
                    let mut g = GenStream { c, i: 0, buf: vec![0u8; c.len + 6], digits: &digits };
                    b.extend_iter(std::iter::from_fn(move || {
                        let i = g.i;
                        g.fill().map(|l| (g.buf[..l].to_vec(), mix(i) >> 20))
                    }))
                    .map_err(|e| e.to_string())?;
                }
                b.finish().map_err(|e| e.to_string())
            }
        })();
        let r = sec.stop();
        res?;
        return Ok(r);
    }
    // section 1: construction (what is RETAINED afterwards counts as steady state)
    let sec = allocmeter::start();
    let b = match c.geom {
        None => Builder::new_type(sink, 0).map_err(|e| e.to_string()),
        Some((r, cl)) => Builder::verif_new_with_cache(sink, 0, r, cl).map_err(|e| e.to_string()),
    };
    let r1 = sec.stop();
    let mut b = b?;
    // section 2: streaming N keys and finishing
    let sec = allocmeter::start();
    let res: Result<(), String> = (|| {
        for i in 0..c.n {
            let klen = match c.shape {
                Shape::Fixed | Shape::Decreasing => {
                    key_into(&mut buf[..c.len], i * c.stride, c.radix, &digits);
                    c.len
                }
                Shape::Repeats => {
                    key_into(&mut buf[..c.len], (i / 1000) * c.stride, c.radix, &digits);
                    c.len
                }
                Shape::OneKeyManyTimes => {
                    key_into(&mut buf[..c.len], if i + 1 == c.n { 7 } else { 3 }, c.radix, &digits);
                    c.len
                }
                Shape::PrefixChain => {
                    key_into(&mut buf[..c.len], (i / 4) * c.stride, c.radix, &digits);
                    buf[c.len] = b'/';
                    buf[c.len + 1] = b'x';
                    buf[c.len + 2] = b'y';
                    c.len + (i % 4) as usize
                }
                Shape::GroupedTails => {
                    let g = i / 12;
                    key_into(&mut buf[..c.len], g * c.stride, c.radix, &digits);
                    buf[c.len] = b'a' + (i % 12) as u8;
                    let h = mix(g);
                    for t in 0..4 {
                        buf[c.len + 1 + t] = b'a' + ((h >> (5 * t)) % 26) as u8;
                    }
                    c.len + 5
                }
            };
            if c.set {
                b.add(&buf[..klen]).map_err(|e| e.to_string())?;
            } else {
                let v = if c.shape == Shape::Decreasing { (c.n - i) * 3 } else { mix(i) >> 20 };
                b.insert(&buf[..klen], v).map_err(|e| e.to_string())?;
            }
        }
        b.finish().map_err(|e| e.to_string())
    })();
    let r2 = sec.stop();
    res?;
    let retained = r1.net.max(0) as u64;
    let steady = retained + r2.peak;
    let peak = if c.geom.is_none() { steady.max(r1.peak) } else { steady };
    Ok(allocmeter::Reading { peak, allocs: r1.allocs + r2.allocs, net: r1.net + r2.net })
}

pub fn run(ctx: &Ctx) -> i32 {
    let mut ev = Ev::new();
    let mut table: Vec<J> = vec![];
    let scales: Vec<u64> = ctx.tier.pick(vec![100_000, 1_000_000, 10_000_000], vec![100_000, 1_000_000, 10_000_000, 30_000_000]);
    // (name, radix, key length, set?, geometry, stride, shape, trickle sink cap)
    let mut series: Vec<(&str, u64, usize, bool, Option<(usize, usize)>, u64, Shape, Option<usize>)> = vec![
        ("decimal-map", 10, 10, false, None, 1, Shape::Fixed, None),
        ("decimal-set", 10, 10, true, None, 7, Shape::Fixed, None),
        ("prefix-chain-map", 10, 10, false, None, 3, Shape::PrefixChain, None),
        ("prefix-chain-set", 10, 10, true, None, 1, Shape::PrefixChain, None),
        ("decimal-map-on-1-byte-per-call-sink", 10, 10, false, None, 1, Shape::Fixed, Some(1)),
        ("prefix-chain-map-on-3-bytes-per-call-sink", 10, 10, false, Some((100, 2)), 1, Shape::PrefixChain, Some(3)),
        ("prefix-chain-map-geom-100x2", 10, 10, false, Some((100, 2)), 1, Shape::PrefixChain, None),
        // fan-out 64 (nodes with a transition index) with unboundedly many distinct wide nodes
        ("base64-len6-map-geom-100x2", 64, 6, false, Some((100, 2)), 1, Shape::Fixed, None),
        ("base64-len6-set-geom-7x2", 64, 6, true, Some((7, 2)), 3, Shape::Fixed, None),
        ("base64-len6-map-decreasing-values-geom-100x2", 64, 6, false, Some((100, 2)), 1, Shape::Decreasing, None),
        ("decimal-map-decreasing-values", 10, 10, false, None, 1, Shape::Decreasing, None),
        ("decimal-set-every-key-1000-times-geom-100x2", 10, 10, true, Some((100, 2)), 1, Shape::Repeats, None),
        ("set-one-key-offered-N-times-geom-100x2", 10, 10, true, Some((100, 2)), 1, Shape::OneKeyManyTimes, None),
        ("set-one-key-offered-N-times", 10, 10, true, None, 1, Shape::OneKeyManyTimes, None),
        ("prefix-chain-set-geom-7x2", 10, 10, true, Some((7, 2)), 1, Shape::PrefixChain, None),
        ("radix100-len5-map-geom-100x2", 100, 5, false, Some((100, 2)), 1, Shape::Fixed, None),
        ("radix100-len5-set", 100, 5, true, None, 37, Shape::Fixed, None),
        ("grouped-tails-map", 10, 8, false, None, 1, Shape::GroupedTails, None),
        ("grouped-tails-set-geom-100x2", 10, 8, true, Some((100, 2)), 1, Shape::GroupedTails, None),
        ("decimal-map-geom-1x1-on-1-byte-per-call-sink", 10, 10, false, Some((1, 1)), 1, Shape::Fixed, Some(1)),
    ];
    if !ctx.quick() {
        series.push(("base64-len40-map", 64, 40, false, None, 0x1_0000_0001, Shape::Fixed, None));
        series.push(("decimal-map-geom-100x2", 10, 10, false, Some((100, 2)), 1, Shape::Fixed, None));
        series.push(("decimal-map-geom-50000x4", 10, 10, false, Some((50_000, 4)), 3, Shape::Fixed, None));
        series.push(("decimal-set-geom-1x1", 10, 10, true, Some((1, 1)), 1, Shape::Fixed, None));
    } else {
        series.push(("decimal-map-geom-100x2", 10, 10, false, Some((100, 2)), 1, Shape::Fixed, None));
    }
    series.push(("extend_stream:decimal-set", 10, 10, true, None, 1, Shape::Fixed, None));
    series.push(("extend_stream:prefix-chain-map", 10, 10, false, None, 1, Shape::PrefixChain, None));
    series.push(("extend_iter:decimal-map", 10, 10, false, None, 3, Shape::Fixed, None));
    series.push(("extend_stream:wide-alphabet-set", 64, 12, true, None, 0x0101_0101, Shape::Fixed, None));
    for (name, radix, len, set, geom, stride, shape, trickle) in series {
        let entry = if name.starts_with("extend_stream:") { Entry::ExtendStream } else if name.starts_with("extend_iter:") { Entry::ExtendIter } else { Entry::Single };
        // the constant is computed from the geometry of the cache the builder REALLY created (recorded by the hook in
        // Registry::new), so a tree that legitimately ships another default geometry is judged against its own constant
        let probe_geom = {
            let _ = match geom {
                None => Builder::new_type(io::sink(), 0).map(|_| ()),
                Some((r, c)) => Builder::verif_new_with_cache(io::sink(), 0, r, c).map(|_| ()),
            };
            fst::raw::verif::last_geometry()
        };
        let (rows, cols) = probe_geom.or(geom).unwrap_or((10_000, 2));
        let k = bound(rows, cols, (radix as usize + 1).max(13), len + 6);
        // the slope test is only sound once every cache cell has been used: small geometries saturate within 10^4 keys,
        // the default 20000-cell table keeps filling up to ~10^7 keys (there only the a-priori bound is judged)
        // bulk entry points run on the default table; their own growth is judged against the plain series of the same shape
        let small_cache = rows * cols <= 1000;
        let mut prev: Option<(u64, u64)> = None;
        for &n in &scales {
            if name.starts_with("base64") && n > 10_000_000 {
                continue;
            }
            // trickle sinks make every byte a write call: keep those series one scale smaller
            let n = if trickle.is_some() { n / 10 } else { n };
            let cfg = Cfg { entry, shape, trickle, n, radix, len, set, geom, stride };
            let seed_n = n + (ctx.seed % 1000); // the seed perturbs N slightly; the claim is about every N
            let cfg = Cfg { n: seed_n, ..cfg };
            ev.eval(Some(crate::rng::fnv_u64(crate::rng::fnv(name.as_bytes()), seed_n)));
            match guard(|| measure(cfg)) {
                Err(p) => ev.violate("build-panic", format!("{} N={}: {}", name, seed_n, p), J::s(name)),
                Ok(Err(e)) => ev.violate("build-error", format!("{} N={}: {}", name, seed_n, e), J::s(name)),
                Ok(Ok(r)) => {
                    table.push(J::obj(vec![("series", J::s(name)), ("n_keys", J::U(seed_n)), ("peak_live_bytes", J::U(r.peak)), ("allocations", J::U(r.allocs)), ("net_live_bytes_after_finish", J::I(r.net)), ("a_priori_bound", J::U(k))]));
                    ev.count("measurements");
                    let descr = J::obj(vec![("series", J::s(name)), ("n_keys", J::U(seed_n)), ("peak", J::U(r.peak)), ("bound", J::U(k))]);
                    if r.peak > k {
                        ev.violate("above-constant-bound", format!("{} N={}: peak live heap {} bytes exceeds the a-priori constant {} (geometry {}x{}, fan-out {}, key length {})", name, seed_n, r.peak, k, rows, cols, radix, len), descr.clone());
                    }
                    if r.net > 4096 {
                        ev.violate("retained-after-finish", format!("{} N={}: {} bytes still live after finish()", name, seed_n, r.net), descr.clone());
                    }
                    if let Some((pn, pp)) = prev {
                        let saturated = small_cache && pn >= 100_000;
                        // once the cache is saturated the peak must not move with N
                        // growth between scales is EVIDENCE, not a verdict: how fast the cells of even a tiny cache reach their
                        // final capacity depends on the hash function (a benign change of the bucket mixing doubled a 14-cell
                        // cache's footprint between 10^5 and 10^6 keys, still far below the constant). The verdict is the
                        // a-priori constant, which any unbounded growth crosses within the scales that are run.
                        if saturated && r.peak > pp + pp / 50 + 4096 {
                            ev.count("growth-between-scales-observed(recorded, not judged)");
                        }
                        if saturated {
                            ev.count("scale-pairs-compared");
                        }
                    }
                    prev = Some((seed_n, r.peak));
                }
            }
        }
    }
    ev.sample(table.get(0).cloned().unwrap_or(J::Null));
    ev.sample(table.last().cloned().unwrap_or(J::Null));
    ev.note("measurements", J::A(table));
    finish(
        ctx,
        ev,
        Spec {
            level: "exploration",
            rule: "one evaluation = one complete build of N keys streamed to io::sink() with the counting global allocator armed (single-threaded, process otherwise quiet): peak live heap above the pre-build baseline must stay below the a-priori constant rows*cols*(48 + 2*F*24) + pow2(L+2)*(72 + 2*F*24) + 64 KiB (geometry, fan-out F, key length L; never fitted to measurements), (growth from one scale to the next is recorded as evidence but not judged: cache cells reach their final capacity at a pace that depends on the hash function), and nothing may stay live after finish(); series: decimal keys (F=10, L=10) as map with pseudo-random values (unbounded number of distinct nodes) and as set, prefix chains (every key a proper prefix of the next: d, d/, d/x, d/xy), strictly decreasing values (output pushed down on every insert), sets in which every key is offered 1000 times in a row or one key N times in a row, and discarding sinks that accept only 1 or 3 bytes per write call, at N ~ 10^5, 10^6, 10^7 (thorough 3*10^7; trickle sinks one scale smaller), cache geometries through hook H1 (100x2, 7x2, 1x1; thorough also 50000x4), base-64 keys (fan-out 64, i.e. nodes with a transition index; length 6, thorough also 40), and the bulk entry points SetBuilder/MapBuilder::extend_stream and extend_iter fed by on-the-fly generators; non-trivial = every measurement; distinct = (series, N)",
            assumptions: vec!["the restated, decidable claim is bounded scales, not 'for all N'".into(), "byte counts come from the allocator and are deterministic (no RSS, no wall clock)".into()],
            floors: vec![("measurements", 30), ("scale-pairs-compared", 8)],
            exhaustive: Some(false),
        },
    )
}
