//! C11 - I/O failures surface as errors, never as panics or silent success.
//! Event-log monitor: the sink logs which builder call was in progress when the injected fault happened.
use crate::ctx::{finish, guard, Ctx, Ev, Spec};
use crate::gen::{self, Case};
use crate::json::J;
use crate::refdec;
use crate::sinks::{Fault, Outcome, Policy, Sink};
use fst::raw::Builder;
use fst::{MapBuilder, SetBuilder};
use std::io::{BufWriter, ErrorKind, Write};

#[derive(Debug, PartialEq, Clone)]
enum CallResult {
    Ok,
    Io,
    OtherErr(String),
}

fn cls(r: Result<(), fst::Error>) -> CallResult {
    match r {
        Ok(()) => CallResult::Ok,
        Err(fst::Error::Io(_)) => CallResult::Io,
        Err(e) => CallResult::OtherErr(format!("{}", e)),
    }
}

/// Drive a builder call by call on `w`, telling `sink` which call is in progress.
/// Returns the per-call results (stops at the first non-Ok).
fn drive<W: Write>(case: &Case, fe: usize, w: W, sink: &Sink) -> Vec<CallResult> {
    let mut out = vec![];
    let kv = &case.kv;
    let bulk = fe / 8 % 2 == 1;
    macro_rules! go {
        ($new:expr, $ins:expr, $bulk:expr) => {{
            sink.set_phase(0);
            let mut b = match $new {
                Ok(b) => {
                    out.push(CallResult::Ok);
                    b
                }
                Err(e) => {
                    out.push(cls(Err(e)));
                    return out;
                }
            };
            if bulk {
                // one bulk call carries all keys: it is builder call #1
                sink.set_phase(1);
                let r = cls($bulk(&mut b));
                let stop = r != CallResult::Ok;
                out.push(r);
                if stop {
                    return out;
                }
                sink.set_phase(2);
            } else {
                for (i, (k, v)) in kv.iter().enumerate() {
                    sink.set_phase(i + 1);
                    let r = cls($ins(&mut b, k, *v));
                    let stop = r != CallResult::Ok;
                    out.push(r);
                    if stop {
                        return out;
                    }
                }
                sink.set_phase(kv.len() + 1);
            }
            // finish() and into_inner() alternate
            if fe / 4 % 2 == 0 {
                out.push(cls(b.into_inner().map(|_| ())));
            } else {
                out.push(cls(b.finish()));
            }
        }};
    }
    match fe % 4 {
        0 => go!(Builder::new(w), |b: &mut Builder<W>, k: &Vec<u8>, v: u64| b.insert(k, v), |b: &mut Builder<W>| b.extend_stream(crate::build::VecStream::new(kv))),
        1 => go!(MapBuilder::new(w), |b: &mut MapBuilder<W>, k: &Vec<u8>, v: u64| b.insert(k, v), |b: &mut MapBuilder<W>| if fe / 16 % 2 == 0 { b.extend_iter(kv.iter().map(|(k, v)| (k, *v))) } else { b.extend_stream(crate::build::VecMapStream(crate::build::VecStream::new(kv))) }),
        2 => go!(SetBuilder::new(w), |b: &mut SetBuilder<W>, k: &Vec<u8>, _v: u64| b.insert(k), |b: &mut SetBuilder<W>| if fe / 16 % 2 == 0 { b.extend_iter(kv.iter().map(|(k, _)| k)) } else { b.extend_stream(crate::build::VecSetStream(crate::build::VecStream::new(kv))) }),
        _ => go!(Builder::new_type(w, 7), |b: &mut Builder<W>, k: &Vec<u8>, _v: u64| b.add(k), |b: &mut Builder<W>| b.extend_iter(kv.iter().map(|(k, _)| (k, fst::raw::Output::zero())))),
    }
    out
}

fn site_class(clean: &[u8], d: Option<&refdec::Decoded>, offset: usize, is_flush: bool) -> &'static str {
    if is_flush {
        return "site:flush";
    }
    let n = clean.len();
    if offset < 16 {
        "site:header"
    } else if offset >= n - 4 {
        "site:checksum"
    } else if offset >= n - 12 {
        "site:footer-root"
    } else if offset >= n - 20 {
        "site:footer-len"
    } else if let Some(d) = d {
        match d.nodes.values().find(|nd| nd.end <= offset && offset <= nd.start) {
            Some(nd) => match nd.form {
                0 => "site:node-one-trans-next",
                1 => "site:node-one-trans",
                _ => {
                    if nd.has_index {
                        "site:node-any-trans-with-index"
                    } else {
                        "site:node-any-trans"
                    }
                }
            },
            None => "site:body-unclassified",
        }
    } else {
        "site:body-unclassified"
    }
}

fn inject(case: &Case, fe: usize, buffered: Option<usize>, pol: Policy, clean: &[u8], d: Option<&refdec::Decoded>, ev: &mut Ev) {
    let sink = Sink::new(pol.clone());
    ev.eval(None);
    let res = guard(|| match buffered {
        None => drive(case, fe, sink.clone(), &sink),
        Some(cap) => drive(case, fe, BufWriter::with_capacity(cap, sink.clone()), &sink),
    });
    let log = sink.log();
    let fail = log.iter().find(|e| matches!(e.outcome, Outcome::Failed(_) | Outcome::FailedPayload(_) | Outcome::Zero));
    let descr = || {
        J::obj(vec![
            ("case", case.describe()),
            ("policy", J::s(format!("{:?}", pol))),
            ("front_end", J::s(["raw::Builder insert", "MapBuilder", "SetBuilder", "raw::Builder add"][fe % 4])),
            ("ends_with", J::s(if fe / 4 % 2 == 0 { "into_inner()" } else { "finish()" })),
            ("keys_arrive_through", J::s(if fe / 8 % 2 == 1 { "one extend_iter/extend_stream call" } else { "single inserts" })),
            ("bufwriter_capacity", match buffered {
                Some(c) => J::U(c as u64),
                None => J::Null,
            }),
        ])
    };
    let results = match res {
        Err(p) => {
            ev.violate("io-panic", format!("builder panicked under {:?}: {}", pol, p), descr());
            return;
        }
        Ok(r) => r,
    };
    match fail {
        Some(f) => {
            ev.count(site_class(clean, d, f.offset, !f.write));
            ev.count(match f.outcome {
                Outcome::Zero => "fault:zero-length-write",
                Outcome::FailedPayload(_) => "fault:error-return-with-structured-payload",
                _ => "fault:error-return",
            });
            // the call in progress when the fault happened must be the first non-Ok result, and it must be Io
            let p = f.phase;
            if results.len() != p + 1 {
                ev.violate(
                    "fault-swallowed",
                    format!("fault injected during builder call #{} ({:?}); the call sequence ended after {} calls with {:?}", p, pol, results.len(), results.last()),
                    descr(),
                );
                return;
            }
            match &results[p] {
                CallResult::Io => {}
                CallResult::Ok => ev.violate("fault-swallowed", format!("builder call #{} returned Ok although the sink failed during it ({:?})", p, pol), descr()),
                CallResult::OtherErr(e) => ev.violate("fault-wrong-error", format!("builder call #{} returned a non-Io error '{}' for an injected sink failure ({:?})", p, e, pol), descr()),
            }
        }
        None => {
            // no fault was reached: a finished build must have delivered and flushed every byte
            ev.count("runs-without-fault-reached");
            if results.iter().all(|r| *r == CallResult::Ok) {
                let data = sink.data();
                let flushed = sink.0.borrow().flushed_after_last_write;
                let ty7 = fe % 4 == 3;
                let same = data.len() == clean.len() && (ty7 || data == clean);
                if !same || !flushed {
                    ev.violate("finished-but-incomplete", format!("build reported finished; sink has {} bytes (clean run {}), flushed-after-last-write={}", data.len(), clean.len(), flushed), descr());
                }
            } else {
                ev.violate("spurious-error", format!("a builder call failed although the sink never failed: {:?}", results.last()), descr());
            }
        }
    }
}

fn interrupted_flush(case: &Case, fe: usize, k: u64, clean: &[u8], ev: &mut Ev) {
    let sink = Sink::new(Policy::FlushInterrupted(k));
    ev.eval(None);
    ev.count("interrupted-flush-sessions");
    let res = guard(|| drive(case, fe, sink.clone(), &sink));
    let descr = || J::obj(vec![("case", case.describe()), ("policy", J::s(format!("the first {} flush calls return Interrupted", k))), ("front_end", J::U(fe as u64))]);
    match res {
        Err(p) => ev.violate("io-panic", format!("builder panicked when flush returned Interrupted: {}", p), descr()),
        Ok(results) => {
            let finished_ok = results.iter().all(|r| *r == CallResult::Ok);
            let flushed = sink.0.borrow().flushed_after_last_write;
            let complete = sink.data().len() == clean.len();
            if finished_ok && !(flushed && complete) {
                ev.violate("finished-but-incomplete", format!("the build was reported finished although no flush ever succeeded (the first {} flush calls returned Interrupted; flushed-after-last-write={}, {} of {} bytes)", k, flushed, sink.data().len(), clean.len()), descr());
            }
            if !finished_ok && !matches!(results.last(), Some(CallResult::Io)) {
                ev.violate("fault-wrong-error", format!("an interrupted flush surfaced as {:?}", results.last()), descr());
            }
        }
    }
}

/// The same statement at the command line: a build whose output could not be written completely must not exit with status 0.
/// Outputs: a pipe whose reader goes away after a few bytes (EPIPE in the middle of a 1.8 MB output), /dev/full (ENOSPC), and - as
/// controls that must succeed - a pipe that is read to the end and a regular file.
fn cli_sinks(ctx: &Ctx, ev: &mut Ev) {
    use std::io::Read;
    use std::process::{Command, Stdio};
    let bin = match std::env::var_os("FST_BIN") {
        Some(b) => std::path::PathBuf::from(b),
        None => {
            ev.count("cli-sinks:binary-not-available");
            return;
        }
    };
    let dir = ctx.root.join("target").join("tmp").join(format!("c11-cli-{}", std::process::id()));
    let _ = std::fs::remove_dir_all(&dir);
    if std::fs::create_dir_all(&dir).is_err() {
        return;
    }
    // incompressible sorted keys: the FST is far larger than a pipe buffer
    let mut rng = crate::rng::Rng::new(ctx.seed, 0xC11C11);
    let mut keys: Vec<String> = (0..120_000).map(|_| (0..12).map(|_| (b'a' + rng.below(26) as u8) as char).collect()).collect();
    keys.sort();
    keys.dedup();
    let set_in = dir.join("set.txt");
    let map_in = dir.join("map.csv");
    let _ = std::fs::write(&set_in, keys.iter().map(|k| format!("{}\n", k)).collect::<String>());
    let _ = std::fs::write(&map_in, keys.iter().enumerate().map(|(i, k)| format!("{},{}\n", k, i * 7)).collect::<String>());
    // a smaller already built FST for `fst union`
    let small_in = dir.join("small.txt");
    let _ = std::fs::write(&small_in, keys.iter().step_by(2).map(|k| format!("{}\n", k)).collect::<String>());
    let half = dir.join("half.fst");
    let whole = dir.join("whole.fst");
    let _ = Command::new(&bin).args(&["set", "--sorted"]).arg(&small_in).arg(&half).arg("--force").output();
    let _ = Command::new(&bin).args(&["set", "--sorted"]).arg(&set_in).arg(&whole).arg("--force").output();
    let cmds: Vec<(&str, Vec<std::ffi::OsString>)> = vec![
        ("set --sorted", vec!["set".into(), "--sorted".into(), set_in.clone().into()]),
        ("map --sorted", vec!["map".into(), "--sorted".into(), map_in.clone().into()]),
        ("set (unsorted)", vec!["set".into(), set_in.clone().into()]),
        ("union", vec!["union".into(), half.clone().into(), whole.clone().into()]),
    ];
    for (name, args) in &cmds {
        // the union sub-command takes its output first
        let with_out = |out: &str| -> Vec<std::ffi::OsString> {
            let mut v = args.clone();
            if *name == "union" {
                v.insert(1, out.into());
            } else {
                v.push(out.into());
            }
            v.push("--force".into());
            v
        };
        // 1. reader goes away
        if let Ok(mut child) = Command::new(&bin).args(with_out("-")).stdin(Stdio::null()).stdout(Stdio::piped()).stderr(Stdio::null()).env_remove("FST_VERIF_SEED").env_remove("FST_VERIF_TRACE").spawn() {
            let mut first = [0u8; 16];
            let got = child.stdout.as_mut().map(|o| o.read(&mut first).unwrap_or(0)).unwrap_or(0);
            drop(child.stdout.take());
            let st = child.wait().ok();
            ev.eval(Some(crate::rng::fnv(name.as_bytes())));
            if got == 0 {
                // this sub-command does not stream to standard output (or failed before writing): nothing to judge
                ev.count("cli-sinks:no-output-on-stdout(not judged)");
            } else {
                ev.count("cli-sinks:reader-went-away");
                if st.map(|s| s.success()).unwrap_or(false) {
                    ev.violate("fault-swallowed", format!("`fst {}` writing ~1.8 MB to a pipe whose reader went away after 16 bytes exits with status 0", name), J::s(*name));
                }
            }
        }
        // 2. device full
        let st = Command::new(&bin).args(with_out("/dev/full")).stdin(Stdio::null()).stdout(Stdio::null()).stderr(Stdio::null()).env_remove("FST_VERIF_SEED").env_remove("FST_VERIF_TRACE").status();
        ev.eval(Some(crate::rng::fnv(name.as_bytes()) ^ 1));
        if let Ok(st) = st {
            ev.count("cli-sinks:device-full");
            if st.success() {
                ev.violate("fault-swallowed", format!("`fst {}` writing to /dev/full exits with status 0", name), J::s(*name));
            }
        }
        // 3. control: a regular file must work
        let okf = dir.join("ok.fst");
        let st = Command::new(&bin).args(with_out(okf.to_str().unwrap_or("ok.fst"))).stdin(Stdio::null()).stdout(Stdio::null()).stderr(Stdio::null()).env_remove("FST_VERIF_SEED").env_remove("FST_VERIF_TRACE").status();
        ev.eval(Some(crate::rng::fnv(name.as_bytes()) ^ 2));
        if let Ok(st) = st {
            ev.count("cli-sinks:regular-file-control");
            if !st.success() {
                ev.violate("spurious-error", format!("`fst {}` writing to a regular file fails", name), J::s(*name));
            }
        }
    }
    let _ = std::fs::remove_dir_all(&dir);
}

pub fn inputs(ctx: &Ctx) -> Vec<Case> {
    let mut v = crate::checks::c07::small_cases(ctx, ctx.tier.pick(150, 600));
    // force all-zero values for every 3rd so set front ends apply
    for (i, c) in v.iter_mut().enumerate() {
        if i % 3 == 2 {
            for e in c.kv.iter_mut() {
                e.1 = 0;
            }
            c.set = true;
        }
    }
    let mut rng = crate::rng::Rng::new(ctx.seed, 0xC11);
    let words = gen::corpus("words-10000");
    if !words.is_empty() {
        v.push(Case { kv: gen::assign(words[..300].to_vec(), 1, &mut rng), set: false, family: "corpus-prefix", index: 0 });
        v.push(Case { kv: gen::assign(words[..1000].to_vec(), 0, &mut rng), set: true, family: "corpus-prefix", index: 1 });
        // an output of several hundred KB (a builder that stages its output in large blocks only hands them over beyond that size)
        v.push(Case { kv: gen::assign(words[..words.len().min(4500)].to_vec(), 5, &mut rng), set: false, family: "corpus-prefix", index: 3 });
        if !ctx.quick() {
            v.push(Case { kv: gen::assign(words.clone(), 5, &mut rng), set: false, family: "corpus", index: 2 });
        }
    }
    // two-key sets whose output length sweeps past the multiples of 4 KiB .. 64 KiB (a writer that stages its output in blocks
    // has its special cases where the pending bytes and the 4 checksum bytes meet a block edge)
    let mut idx = 10;
    for &b in [4096usize, 8192, 16384, 32768, 65536].iter() {
        // file length = L + 43; quick: beyond 4 KiB only the lengths b-2 ..= b+7
        let (lo, hi) = if ctx.quick() && b > 4096 { (8, 18) } else { (0, 70) };
        for d in lo..hi {
            let l = b + 10 - 38 - d;
            v.push(Case { kv: vec![(b"a".to_vec(), 0), (vec![b'q'; l], 0)], set: true, family: "length-sweep", index: idx });
            idx += 1;
        }
    }
    v
}

pub fn run(ctx: &Ctx) -> i32 {
    let cases = inputs(ctx);
    let kinds = [Fault::Err(ErrorKind::Other), Fault::Err(ErrorKind::BrokenPipe), Fault::Err(ErrorKind::PermissionDenied), Fault::Zero, Fault::Err(ErrorKind::OutOfMemory), Fault::Err(ErrorKind::WriteZero), Fault::Payload(0), Fault::Payload(1), Fault::Payload(2), Fault::Payload(3), Fault::Payload(4), Fault::Payload(5)];
    let maxpos = ctx.tier.pick(400, 3000);
    let ev = ctx.par(|shard, n, ev| {
        for (ci, case) in cases.iter().enumerate() {
            if ci % n != shard {
                continue;
            }
            // low 2 bits: front end; bit 2: finish() instead of into_inner(); bit 3: one bulk call (extend_iter /
            // extend_stream) instead of single inserts; bit 4: which bulk call
            let fes: Vec<usize> = if case.set { vec![2, 3 + 4, 0, 2 + 8, 2 + 8 + 16 + 4, 3 + 8] } else { vec![0, 1 + 4, 0 + 8 + 4, 1 + 8, 1 + 8 + 16] };
            for &fe in &fes {
                // clean run: number of write calls, reference bytes
                let clean_sink = Sink::new(Policy::Full);
                let r = guard(|| drive(case, fe, clean_sink.clone(), &clean_sink));
                if !matches!(&r, Ok(v) if v.iter().all(|x| *x == CallResult::Ok)) {
                    ev.violate("spurious-error", "clean run on a fully accepting sink failed".into(), case.describe());
                    continue;
                }
                let clean = clean_sink.data();
                let w = clean_sink.write_calls();
                let d = refdec::decode(&clean).ok();
                let before = ev.evaluations;
                let sweep = case.family == "length-sweep";
                let step = (w / if sweep { 8 } else { maxpos }).max(1);
                // the LAST write calls (checksum, footer, whatever a staging writer hands over at the end), every one of them,
                // refused with Ok(0), with an error, and accepted short and then refused
                for i in w.saturating_sub(6)..w {
                    inject(case, fe, None, Policy::FailWriteAt(i, Fault::Zero), &clean, d.as_ref(), ev);
                    inject(case, fe, None, Policy::FailWriteAt(i, Fault::Err(ErrorKind::Other)), &clean, d.as_ref(), ev);
                    inject(case, fe, None, Policy::ShortThenFail(i, Fault::Zero), &clean, d.as_ref(), ev);
                    ev.count("fault:at-each-of-the-last-write-calls");
                }
                let mut i = (ci + ctx.seed as usize) % step;
                while i <= w {
                    // i == w: the fault position lies beyond the last write -> the run must finish cleanly
                    let k = &kinds[(i + fe) % kinds.len()];
                    inject(case, fe, None, Policy::FailWriteAt(i, k.clone()), &clean, d.as_ref(), ev);
                    if step == 1 || i % 3 == 0 {
                        inject(case, fe, None, Policy::FailWriteAt(i, kinds[(i + fe + 3) % kinds.len()].clone()), &clean, d.as_ref(), ev);
                    }
                    i += step;
                }
                // a fault in the MIDDLE of one logical write: a short accept directly followed by the fault (the sink recovers
                // afterwards), and a device that fills up after `total` bytes (and stays full)
                let mut i = (ci + ctx.seed as usize) % step;
                while i < w {
                    let k = &kinds[(i + fe + 1) % kinds.len()];
                    inject(case, fe, None, Policy::ShortThenFail(i, if i % 2 == 0 { Fault::Zero } else { k.clone() }), &clean, d.as_ref(), ev);
                    ev.count("fault:in-the-middle-of-a-logical-write");
                    i += step;
                }
                let cstep = (clean.len() / if sweep { 6 } else { 60 }).max(1);
                let mut total = (ci + fe) % cstep;
                while total < clean.len() {
                    inject(case, fe, None, Policy::Capacity { total, chunk: [usize::MAX, 5, 1][(total / cstep) % 3], fault: if (total / cstep) % 2 == 0 { Fault::Zero } else { Fault::Err(ErrorKind::Other) } }, &clean, d.as_ref(), ev);
                    ev.count("fault:device-full");
                    total += cstep;
                }
                for k in [ErrorKind::Other, ErrorKind::BrokenPipe].iter() {
                    inject(case, fe, None, Policy::FailFlush(*k), &clean, d.as_ref(), ev);
                }
                // a flush that keeps returning Interrupted: whether the builder retries or gives up is its choice, but it
                // must not report the build as finished unless a flush finally succeeded
                for k in [1u64, 3, 50].iter() {
                    interrupted_flush(case, fe, *k, &clean, ev);
                }
                // through a BufWriter: the inner sink sees few, large writes; the fault surfaces when the buffer drains
                for cap in [16usize, 64, 8192].iter().take(if sweep { 0 } else { 3 }) {
                    let probe = Sink::new(Policy::Full);
                    let _ = guard(|| drive(case, fe, BufWriter::with_capacity(*cap, probe.clone()), &probe));
                    let wb = probe.write_calls();
                    let stepb = (wb / 60).max(1);
                    let mut i = 0;
                    while i <= wb {
                        inject(case, fe, Some(*cap), Policy::FailWriteAt(i, kinds[i % kinds.len()].clone()), &clean, d.as_ref(), ev);
                        i += stepb;
                    }
                    inject(case, fe, Some(*cap), Policy::FailFlush(ErrorKind::Other), &clean, d.as_ref(), ev);
                    ev.count("bufwriter-series");
                }
                ev.distinct_extra += ev.evaluations - before;
                ev.fps.insert(crate::rng::fnv_u64(case.fp(), fe as u64));
                ev.count("inputs-x-front-ends");
                if ci % 23 == 1 && fe == fes[0] {
                    ev.sample(J::obj(vec![("case", case.describe()), ("write_calls_clean", J::U(w as u64)), ("faults", J::s("every write call index (and one past the end) x rotating {Other, BrokenPipe, PermissionDenied, Ok(0), OutOfMemory, WriteZero}; flush failure; via BufWriter(16|64|8192)"))]));
                }
            }
        }
    });
    let mut ev = ev;
    cli_sinks(ctx, &mut ev);
    finish(
        ctx,
        ev,
        Spec {
            level: "fault_enumeration",
            rule: "one evaluation = one complete builder session (new, inserts, into_inner) on a sink that fails: once at write call i - at the start of a logical write or in its middle, i.e. directly after a short accept - or permanently once a device of limited capacity is full; (error return of several kinds - also io::Errors whose payload is a structured error of another component, e.g. an fst ordering error reported by a sink that feeds a second builder - or a zero-length accept) or at the final flush (also: a flush that returns Interrupted 1, 3 or 50 times - then 'finished' requires that some flush finally succeeded); the sink log records which builder call was in progress; that call must return Err(Error::Io) - not Ok, not another error, not a panic - and no call after the header may have been reported Ok beyond it; sessions whose fault index lies past the last write must finish with every byte delivered and flushed; fault positions: EVERY write call index of the clean run (quick: <=400 evenly spaced when there are more) for each input x front ends {raw insert, MapBuilder, SetBuilder, raw add with a type} x {single inserts, one extend_iter / extend_stream call} x {into_inner, finish}; the same through BufWriter(16|64|8192) where the fault surfaces when the buffer drains; non-trivial = every session; distinct = (input, front end, fault position/kind), distinct by construction",
            assumptions: vec!["ErrorKind::Interrupted is a retry request, not a failure (C07 covers it)".into(), "behaviour of a builder AFTER it returned an I/O error is not judged".into()],
            floors: vec![
                // which emission site a fault hits depends on how the builder groups its writes: the site:* classes are
                // evidence only (except the flush, which is a policy of the harness)
                ("site:flush", 10),
                ("inputs-x-front-ends", 100),
                ("fault:zero-length-write", 100),
                ("fault:error-return", 100),
                ("fault:error-return-with-structured-payload", 100),
                ("fault:in-the-middle-of-a-logical-write", 1000),
                ("fault:device-full", 1000),
                ("cli-sinks:device-full", 4),
                ("cli-sinks:reader-went-away", 2),
                ("runs-without-fault-reached", 10),
                ("bufwriter-series", 10),
            ],
            exhaustive: Some(!ctx.quick()),
        },
    )
}
