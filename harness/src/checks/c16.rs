//! C16 - get_key inverts maps whose values increase with the keys.
use crate::build::{self, Front, GEOMS};
use crate::ctx::{finish, guard, Ctx, Ev, Spec};
use crate::gen::{self, Kv};
use crate::json::J;
use crate::rng::Rng;
use fst::raw::Fst;
use std::collections::BTreeMap;

/// strictly increasing value shapes
fn monotone(keys: Vec<Vec<u8>>, shape: usize, rng: &mut Rng) -> Kv {
    let n = keys.len().max(1) as u64;
    let pal = gen::palette();
    let mut acc = 0u64;
    keys.into_iter()
        .enumerate()
        .map(|(i, k)| {
            let v = match shape % 6 {
                0 => i as u64,                                                     // 0,1,2,...
                1 => 7 + 3 * i as u64 + (i as u64 % 2),                            // start > 0 with gaps
                2 => pal[i % pal.len()].saturating_add((i / pal.len()) as u64),    // boundary palette ascending (n <= 23)
                3 => (u64::MAX / n) * (i as u64 + 1) - if i as u64 + 1 == n { 0 } else { 1 }, // huge gaps, last = ~u64::MAX
                4 => {
                    let sh = rng.below(40);
                    acc += 1 + rng.below(1 << sh);
                    acc
                }
                _ => 1 + i as u64, // start at 1: the empty key (if present) gets a non-zero value
            };
            (k, v)
        })
        .collect()
}

fn check_map(kv: &Kv, bytes: &[u8], rng: &mut Rng, ev: &mut Ev, tag: &str) {
    let fst = match Fst::new(bytes) {
        Ok(f) => f,
        Err(e) => {
            ev.violate("open-failed", format!("{}", e), J::Null);
            return;
        }
    };
    // the premise must hold for the oracle to apply
    if kv.windows(2).any(|w| w[0].1 >= w[1].1) {
        return;
    }
    let inv: BTreeMap<u64, &Vec<u8>> = kv.iter().map(|(k, v)| (*v, k)).collect();
    if kv.first().map(|e| e.0.is_empty() && e.1 != 0).unwrap_or(false) {
        ev.count("cov:maps-with-empty-key-nonzero-value");
    }
    if kv.first().map(|e| e.0.is_empty() && e.1 == 0).unwrap_or(false) {
        ev.count("cov:maps-with-empty-key-zero-value");
    }
    let mut qs: Vec<u64> = vec![0, 1, u64::MAX, u64::MAX - 1];
    let stride = (kv.len() / 3000).max(1);
    for (i, (_, v)) in kv.iter().enumerate() {
        if i % stride == 0 || i + 1 == kv.len() {
            qs.push(*v);
            qs.push(v.wrapping_add(1));
            qs.push(v.wrapping_sub(1));
        }
    }
    for _ in 0..20 {
        qs.push(rng.next() >> rng.below(64));
    }
    qs.sort();
    qs.dedup();
    let descr = |q: u64| J::obj(vec![("front", J::s(tag)), ("query_value", J::U(q)), ("nkeys", J::U(kv.len() as u64)), ("entries", J::A(kv.iter().take(16).map(|(k, v)| J::A(vec![J::bytes(k), J::U(*v)])).collect()))]);
    let mut bad = 0;
    for (qi, q) in qs.into_iter().enumerate() {
        if bad > 2 {
            break;
        }
        ev.eval(None);
        ev.distinct_extra += 1;
        let want: Option<&Vec<u8>> = inv.get(&q).cloned();
        ev.count(if want.is_some() { "queries:present-value" } else { "queries:absent-value" });
        // the caller's buffer: short prefix, or (every 4th query) one that is already longer than the whole FST,
        // as happens when one buffer is reused to collect many keys
        let prefix: Vec<u8> = if qi % 4 == 3 { vec![b'#'; bytes.len() + 9 + qi % 5] } else { b"PFX".to_vec() };
        let r = guard(|| {
            let got = fst.get_key(q);
            let mut buf = prefix.clone();
            let ok = fst.get_key_into(q, &mut buf);
            (got, ok, buf)
        });
        match r {
            Err(p) => {
                bad += 1;
                ev.violate("get-key-panic", format!("get_key({}) panicked: {}", q, p), descr(q));
            }
            Ok((got, ok, buf)) => {
                if got.as_ref() != want {
                    bad += 1;
                    ev.violate("get-key-mismatch", format!("get_key({}) = {:?}, inverse of the map says {:?}", q, got.as_ref().map(|k| crate::json::show_bytes(k)), want.map(|k| crate::json::show_bytes(k))), descr(q));
                    continue;
                }
                match want {
                    Some(k) => {
                        let mut exp = prefix.clone();
                        exp.extend_from_slice(k);
                        if !ok || buf != exp {
                            bad += 1;
                            ev.violate("get-key-into", format!("get_key_into({}) into a buffer already holding {} bytes returned {} with a buffer of {} bytes ending in {} (want true and the caller's prefix followed by exactly the key)", q, prefix.len(), ok, buf.len(), crate::json::show_bytes(&buf[buf.len().saturating_sub(16)..])), descr(q));
                        }
                    }
                    None => {
                        if ok {
                            bad += 1;
                            ev.violate("get-key-into", format!("get_key_into({}) returned true for an absent value", q), descr(q));
                        }
                    }
                }
            }
        }
    }
}

pub fn run(ctx: &Ctx) -> i32 {
    let u = gen::universe(b"ab", 3);
    let nmask = 1u64 << u.len();
    let ev = ctx.par(|shard, n, ev| {
        let mut rng = Rng::new(ctx.seed, 0xC16 + shard as u64);
        for mask in 0..nmask {
            if (mask as usize) % n != shard {
                continue;
            }
            for shape in 0..6 {
                if ctx.quick() && shape >= 4 && mask % 2 == 1 {
                    continue;
                }
                let kv = monotone(gen::subset(&u, mask), shape, &mut rng);
                let g = GEOMS[(mask as usize + shape) % GEOMS.len()];
                // shape 2 goes through a raw builder that is offered every other key a second time through add() (a no-op by the set rule)
                let front = if shape == 2 { Front::RawMixedRepeats } else if shape == 0 && mask % 2 == 0 { Front::MapRejectedCalls } else if shape % 2 == 0 { Front::MapInsert } else { Front::RawGeom(g.0, g.1) };
                match guard(|| build::build(front, &kv)) {
                    Ok(Ok(bytes)) => {
                        ev.fps.insert(crate::rng::fnv_u64(mask, shape as u64));
                        check_map(&kv, &bytes, &mut rng, ev, &format!("{:?}", front));
                        ev.count("maps:small-universe");
                        // the same map as a version-1 / version-2 file (reference encoder, outputs pushed towards the root)
                        if mask % 7 == shape as u64 {
                            let ver = 1 + (mask / 7) % 2;
                            let old = crate::refenc::encode_with(&kv, ver, 0, (mask % 3) as u8, true, &mut rng);
                            check_map(&kv, &old, &mut rng, ev, &format!("reference-encoded version {}", ver));
                            ev.count("maps:version-1-2-files");
                        }
                    }
                    _ => ev.violate("build-error", "cannot build".into(), J::Null),
                }
                if mask % 3001 == 17 && shape == 1 {
                    ev.sample(J::obj(vec![("map", J::A(kv.iter().map(|(k, v)| J::A(vec![J::bytes(k), J::U(*v)])).collect())), ("queries", J::s("every stored value, +-1, 0, 1, u64::MAX, u64::MAX-1, 20 random"))]));
                }
            }
        }
        // corpora: value = i, 2i+1, i^2
        if shard < 3 {
            for name in ["words-10000", "wiki-urls-10000"].iter() {
                let keys = gen::corpus(name);
                if keys.is_empty() {
                    continue;
                }
                let kv: Kv = keys.into_iter().enumerate().map(|(i, k)| (k, [i as u64, 2 * i as u64 + 1, (i as u64) * (i as u64) + 5][shard])).collect();
                if let Ok(Ok(bytes)) = guard(|| build::build(Front::MapInsert, &kv)) {
                    ev.fps.insert(crate::rng::fnv_u64(0xC0, shard as u64));
                    check_map(&kv, &bytes, &mut rng, ev, "corpus");
                    ev.count("maps:corpus");
                }
            }
        }
        // every byte value as the common first byte of all keys (the root is then a single-transition node that carries
        // the smallest value as its output; 193 of the 256 bytes are stored explicitly, 63 through the common-input table)
        for b in 0..=255u8 {
            if (b as usize) % n != shard {
                continue;
            }
            let mut r = Rng::new(ctx.seed, 0x16_b17e + b as u64);
            for variant in 0..4 {
                let first = [1u64, 256, 70_000, (1 << 32) + 5][variant];
                let mut keys: Vec<Vec<u8>> = match variant % 2 {
                    0 => vec![vec![b, b'a'], vec![b, b'b']],
                    _ => vec![vec![b, b, 0xfe, b'k'], vec![b, b, 0xff], vec![b, b'z']],
                };
                keys.sort();
                keys.dedup();
                let kv: Kv = keys.into_iter().enumerate().map(|(i, k)| (k, first + (i as u64) * (first + 3))).collect();
                if let Ok(Ok(bytes)) = guard(|| build::build(if variant < 2 { Front::MapInsert } else { Front::RawGeom(7, 2) }, &kv)) {
                    ev.fps.insert(crate::rng::fnv_u64(0x16_b17e + variant as u64, b as u64));
                    check_map(&kv, &bytes, &mut r, ev, "all keys share their first byte");
                    ev.count("maps:common-first-byte");
                }
            }
        }
        // long keys (1..400 bytes) and wide nodes (fan-out palette at depth 0 and 1), monotone values
        for i in 0..ctx.tier.pick(60, 400) {
            if i % n != shard {
                continue;
            }
            let mut r = Rng::new(ctx.seed, 0x16_10e9 + i as u64);
            let mut keys: Vec<Vec<u8>> = vec![];
            if i % 2 == 0 {
                let alpha = gen::alphabet(&mut r);
                for _ in 0..(2 + r.usize(12)) {
                    let l = [1usize, 63, 64, 127, 128, 129, 130, 200, 255, 256, 257, 300, 400][r.usize(13)];
                    let mut k = r.bytes(l, &alpha);
                    keys.push(k.clone());
                    // a sibling that shares a long prefix
                    let cut = r.usize(k.len());
                    k.truncate(cut + 1);
                    k[cut] = k[cut].wrapping_add(1);
                    keys.push(k);
                }
                keys.sort();
                keys.dedup();
            } else {
                let fo = gen::FANOUTS[(i / 2) % gen::FANOUTS.len()];
                keys = gen::fanout_keys(fo, (i / 22) % 2, i % 4 == 1, i % 8 < 4, &mut r);
            }
            let kv = monotone(keys, 1 + i % 5, &mut r);
            if let Ok(Ok(bytes)) = guard(|| build::build(Front::MapInsert, &kv)) {
                ev.fps.insert(crate::rng::fnv_u64(0x16_10e9, i as u64));
                check_map(&kv, &bytes, &mut r, ev, "long keys / wide nodes");
                let ver = 1 + (i as u64 / 2) % 2;
                let old = crate::refenc::encode_with(&kv, ver, 0, (i % 3) as u8, true, &mut r);
                check_map(&kv, &old, &mut r, ev, &format!("reference-encoded version {} (long keys / wide nodes)", ver));
                ev.count("maps:version-1-2-files");
                ev.count(if i % 2 == 0 { "maps:long-keys" } else { "maps:wide-nodes" });
            }
        }
        // random monotone maps (byte-level alphabets, prefix-heavy keys, with and without the empty key)
        let nrand = ctx.tier.pick(3000, 100_000);
        for i in 0..nrand {
            if i % n != shard {
                continue;
            }
            let mut r = Rng::new(ctx.seed, 0x16_0000 + i as u64);
            let alpha = gen::alphabet(&mut r);
            let nk = 1 + r.usize(if i % 50 == 0 { 3000 } else { 40 });
            let mut keys = gen::random_keys(&mut r, nk, &alpha, 6);
            if i % 3 == 0 && keys.first().map(|k| !k.is_empty()).unwrap_or(true) {
                keys.insert(0, vec![]);
            }
            let kv = monotone(keys, 1 + i % 5, &mut r);
            let g = GEOMS[i % GEOMS.len()];
            if let Ok(Ok(bytes)) = guard(|| build::build(Front::RawGeom(g.0, g.1), &kv)) {
                ev.fps.insert(crate::rng::fnv_u64(0x16_0000, i as u64));
                check_map(&kv, &bytes, &mut r, ev, "random");
                ev.count("maps:random-monotone");
            }
        }
    });
    finish(
        ctx,
        ev,
        Spec {
            level: "exploration",
            rule: "one evaluation = one get_key(v) + get_key_into(v, prefixed buffer) query compared with the inverse of the model map; maps: ALL 32768 subsets of {a,b}^<=3 (with and without the empty key) x 6 strictly increasing value shapes (0,1,2..; offset+gaps; boundary palette; huge gaps up to ~u64::MAX; random gaps; starting at 1 so an empty key carries a non-zero value) [quick: shapes 5-6 on every 2nd subset], maps whose keys all start with the same byte, for every byte value and first values 1/256/70000/2^32+5, keys of 1..400 bytes, nodes of every fan-out class up to 256, the same maps as version-1 and version-2 files written by the reference encoder (outputs pushed towards the root as the builder does), corpora with value = i, 2i+1, i^2+5, random monotone maps over byte-level alphabets and several cache geometries; queries per map: every stored value, +-1, 0, 1, u64::MAX(-1), 20 random; non-trivial = every query; distinct = (map, value), distinct by construction",
            assumptions: vec!["maps whose values are not strictly increasing are outside the statement and skipped".into(), "the buffer content after get_key_into returned false is unspecified and not judged".into()],
            floors: vec![("cov:maps-with-empty-key-nonzero-value", 1000), ("cov:maps-with-empty-key-zero-value", 1000), ("queries:present-value", 10_000), ("queries:absent-value", 10_000), ("maps:long-keys", 20), ("maps:wide-nodes", 20), ("maps:version-1-2-files", 1000), ("maps:common-first-byte", 1000)],
            exhaustive: Some(!ctx.quick()),
        },
    )
}
