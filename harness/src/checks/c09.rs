//! C09 - Builder output conforms to the documented version-3 on-disk format.
//! Oracle: the harness' independent decoder (refdec) + reference CRC; the crate's reader is not involved.
use crate::build::{self, Front, GEOMS, MAP_FRONTS, SET_FRONTS};
use crate::json::J;
use crate::ctx::{finish, guard, Ctx, Ev, Spec};
use crate::gen::{self, Case};
use crate::refdec;

fn one(case: &Case, front: Front, ev: &mut Ev) {
    let name = format!("{:?}", front);
    let bytes = match guard(|| build::build(front, &case.kv)) {
        Ok(Ok(b)) => b,
        Ok(Err(e)) => {
            ev.violate("build-error", format!("front={} build failed: {}", name, e), case.describe());
            return;
        }
        Err(p) => {
            ev.violate("build-panic", format!("front={} build panicked: {}", name, p), case.describe());
            return;
        }
    };
    ev.eval(if case.kv.is_empty() { None } else { Some(crate::rng::fnv_add(case.fp(), name.as_bytes())) });
    ev.count(&format!("front:{}", name.split('(').next().unwrap()));
    match guard(|| refdec::validate_v3(&bytes, 0, &case.kv)) {
        Ok(Ok(d)) => {
            build::node_histogram(&d, ev);
            ev.add("nodes-tiled", d.nodes.len() as u64);
            // recorded, never judged: compactness policy statistics
            for n in d.nodes.values() {
                if n.form == 2 && n.trans.len() == 1 && !n.is_final {
                    ev.count("policy:any-trans-used-for-single-transition");
                }
            }
        }
        Ok(Err(e)) => ev.violate("format", format!("front={} file of {} bytes is not a well-formed v3 FST holding the inserted map: {}", name, bytes.len(), e), case.describe()),
        Err(p) => ev.violate("decoder-panic", format!("front={} independent decoder panicked (harness bug or malformed file): {}", name, p), case.describe()),
    }
}

pub fn run(ctx: &Ctx) -> i32 {
    let fams = gen::pool(ctx.tier, ctx.seed, 1);
    let ev = ctx.par(|shard, n, ev| {
        gen::for_shard(&fams, shard, n, |case| {
            if case.family == "huge-delta" {
                return; // 17 million one-byte nodes: the map-based decoder would need gigabytes; delta width 4 is covered by the thorough bulk family
            }
            let exhaustive = case.family.ends_with("-subsets");
            let big = case.kv.len() > 50_000;
            let mut fronts = vec![Front::RawGeom(GEOMS[0].0, GEOMS[0].1)];
            if !big {
                let g = GEOMS[1 + case.index % (GEOMS.len() - 1)];
                fronts.push(Front::RawGeom(g.0, g.1));
                if case.family == "duplicated-wide-fans" || case.family == "cache-digest-collision" {
                    // what these families probe happens inside the node cache: every hook geometry
                    for &(r, c) in GEOMS.iter().skip(1) {
                        fronts.push(Front::RawGeom(r, c));
                    }
                }
                if !exhaustive || case.index % 4 == 0 {
                    fronts.push(MAP_FRONTS[case.index % MAP_FRONTS.len()]);
                    if case.set {
                        fronts.push(SET_FRONTS[case.index % SET_FRONTS.len()]);
                    }
                }
            }
            for f in fronts {
                one(case, f, ev);
            }
            ev.count(&format!("family:{}", case.family));
            if case.index % 1499 == 0 {
                ev.sample(case.describe());
            }
        });
    });
    // builders that saw REJECTED calls in between must still produce a well-formed file holding the accepted history
    let keys: Vec<Vec<u8>> = vec![b"".to_vec(), b"a".to_vec(), b"ab".to_vec(), b"b".to_vec(), b"ba".to_vec(), b"c".to_vec()];
    let maxlen = ctx.tier.pick(5, 6);
    let ev2 = ctx.par(|shard, n, ev| {
        let mut seq: Vec<usize> = vec![];
        let mut idx = 0usize;
        // iterate over all sequences of length 1..=maxlen in mixed radix
        for len in 1..=maxlen {
            let total = keys.len().pow(len as u32);
            for t in 0..total {
                idx += 1;
                if idx % n != shard {
                    continue;
                }
                seq.clear();
                let mut x = t;
                for _ in 0..len {
                    seq.push(x % keys.len());
                    x /= keys.len();
                }
                for set_mode in [false, true].iter() {
                    let mut model = crate::checks::c06::Model::new(*set_mode);
                    let r = guard(|| {
                        if *set_mode {
                            let mut b = fst::SetBuilder::memory();
                            for &k in &seq {
                                let _ = b.insert(&keys[k]);
                            }
                            b.into_inner().map_err(|e| e.to_string())
                        } else {
                            let mut b = fst::MapBuilder::memory();
                            for (i, &k) in seq.iter().enumerate() {
                                let _ = b.insert(&keys[k], (i as u64 + 1) * 10);
                            }
                            b.into_inner().map_err(|e| e.to_string())
                        }
                    });
                    for (i, &k) in seq.iter().enumerate() {
                        model.step(&keys[k], (i as u64 + 1) * 10);
                    }
                    ev.eval(None);
                    ev.distinct_extra += 1;
                    ev.count("files-from-builders-with-rejected-calls");
                    let descr = || crate::json::J::obj(vec![("front_end", crate::json::J::s(if *set_mode { "SetBuilder" } else { "MapBuilder" })), ("calls", crate::json::J::A(seq.iter().map(|&k| crate::json::J::bytes(&keys[k])).collect()))]);
                    match r {
                        Ok(Ok(bytes)) => {
                            if let Err(e) = refdec::validate_v3(&bytes, 0, &model.accepted) {
                                ev.violate("format", format!("a builder that rejected some calls produced a file that is not a well-formed v3 FST of its accepted keys: {}", e), descr());
                            }
                        }
                        Ok(Err(e)) => ev.violate("build-error", format!("finishing after rejected calls failed: {}", e), descr()),
                        Err(p) => ev.violate("build-panic", format!("builder panicked on a call sequence with rejected calls: {}", p), descr()),
                    }
                }
            }
        }
    });
    let mut ev = ev;
    ev.merge(ev2);
    // files written in history scenarios (long series of builds on one thread, builders migrating between threads)
    {
        let mut bad = 0;
        for (label, kv, res) in build::history_builds(ctx.seed, ctx.tier.pick(6, 32), ctx.tier.pick(1200, 5000), ctx.tier.pick(300, 3000)) {
            ev.eval(None);
            ev.distinct_extra += 1;
            ev.count("files-from-history-scenarios");
            let verdict = match res {
                Ok(bytes) => match guard(|| refdec::validate_v3(&bytes, 0, &kv).map(|_| ())) {
                    Ok(r) => r.map_err(|e| format!("file of {} bytes is not a well-formed v3 FST holding the inserted map: {}", bytes.len(), e)),
                    Err(p) => Err(format!("independent decoder panicked: {}", p)),
                },
                Err(e) => Err(format!("build failed: {}", e)),
            };
            if let Err(e) = verdict {
                if bad < 3 {
                    ev.violate("format", format!("{}: {}", label, e), J::A(kv.iter().map(|(k, v)| J::A(vec![J::bytes(k), J::U(*v)])).collect()));
                }
                bad += 1;
            }
        }
    }
    let mut floors = build::structural_floors(ctx.tier == crate::ctx::Tier::Thorough);
    floors.push(("files-from-builders-with-rejected-calls", 10_000));
    floors.push(("files-from-history-scenarios", 5000));
    finish(
        ctx,
        ev,
        Spec {
            level: "exploration",
            rule: "(also decoded: every file written in history scenarios - series of 1200 small builds on one thread with abandoned builders in between, and half-filled builders migrating to fresh threads that go on building) one evaluation = one built file decoded by the independent format decoder: header (version 3, type), footer (count, root, masked CRC-32C by the bit-wise reference), every reachable node parsed under the documented layouts, transitions point strictly backwards or to the sentinel, node extents tile [16, footer) exactly, root is last, decoded map == inserted map; same case pool as C01, plus the files finished by Map/Set builders after ALL call sequences of length <=5 (thorough <=6) over 6 keys, i.e. with rejected calls in between (must encode exactly the accepted history); non-trivial = at least one key; distinct = distinct (content, front end)",
            assumptions: vec![
                "the 63-entry common-input table is format data pinned from the pinned revision".into(),
                "compactness choices (minimal widths, preferred node forms) are encoder policy: recorded, not judged".into(),
            ],
            floors,
            exhaustive: Some(false),
        },
    )
}
