//! C15 - Construction is deterministic and independent of the API path.
//! Oracle: byte equality against the first build of the same accepted sequence.
use crate::build::{self, Front, MAP_FRONTS, SET_FRONTS};
use crate::ctx::{finish, guard, Ctx, Ev, Spec};
use crate::gen::{self, Case, Kv};
use crate::json::J;
use crate::rng::Rng;
use fst::raw::{Builder, Fst, OpBuilder};
#[allow(unused_imports)]
use fst::Streamer as _;
use fst::{set, Set, SetBuilder, Streamer};
use std::io::{BufWriter, Write};

fn digest(b: &[u8]) -> (u64, u64) {
    let mut h2: u64 = 0x9E3779B97F4A7C15;
    for c in b.chunks(8) {
        let mut x = [0u8; 8];
        x[..c.len()].copy_from_slice(c);
        h2 = crate::rng::mix(h2 ^ u64::from_le_bytes(x));
    }
    (crate::rng::fnv(b), h2 ^ b.len() as u64)
}

/// stream a union of `parts` partial FSTs into a fresh builder (the documented merge recipe)
fn via_union(kv: &Kv, parts: usize, how: usize, as_set: bool) -> Result<Vec<u8>, String> {
    let mut chunks: Vec<Kv> = vec![vec![]; parts];
    for (i, e) in kv.iter().enumerate() {
        let p = match how % 3 {
            0 => i % parts,
            1 => i * parts / kv.len().max(1),
            _ => (crate::rng::mix(i as u64 ^ how as u64) % parts as u64) as usize,
        };
        chunks[p].push(e.clone());
    }
    let bytes: Vec<Vec<u8>> = chunks.iter().map(|c| build::build(Front::MapInsert, c)).collect::<Result<_, _>>()?;
    if as_set {
        let sets: Vec<Set<&[u8]>> = bytes.iter().map(|b| Set::new(&b[..]).unwrap()).collect();
        let mut b = SetBuilder::memory();
        let u = sets.iter().collect::<set::OpBuilder>().union();
        b.extend_stream(u).map_err(|e| e.to_string())?;
        b.into_inner().map_err(|e| e.to_string())
    } else {
        let fsts: Vec<Fst<&[u8]>> = bytes.iter().map(|b| Fst::new(&b[..]).unwrap()).collect();
        let mut u = fsts.iter().collect::<OpBuilder>().union();
        let mut b = Builder::new(Vec::new()).map_err(|e| e.to_string())?;
        while let Some((k, ivs)) = u.next() {
            if ivs.len() != 1 {
                return Err("harness: key in two parts".into());
            }
            b.insert(k, ivs[0].value).map_err(|e| e.to_string())?;
        }
        b.into_inner().map_err(|e| e.to_string())
    }
}

fn via_sink(kv: &Kv, which: usize, tmp: &std::path::Path, tag: u64) -> Result<Vec<u8>, String> {
    match which % 3 {
        0 => {
            let mut b = Builder::new(BufWriter::with_capacity(13, Vec::new())).map_err(|e| e.to_string())?;
            for (k, v) in kv {
                b.insert(k, *v).map_err(|e| e.to_string())?;
            }
            b.into_inner().map_err(|e| e.to_string())?.into_inner().map_err(|e| e.to_string())
        }
        1 => {
            let path = tmp.join(format!("c15-{}.fst", tag));
            {
                let f = std::fs::File::create(&path).map_err(|e| e.to_string())?;
                let mut b = Builder::new(f).map_err(|e| e.to_string())?;
                for (k, v) in kv {
                    b.insert(k, *v).map_err(|e| e.to_string())?;
                }
                let mut f = b.into_inner().map_err(|e| e.to_string())?;
                f.flush().map_err(|e| e.to_string())?;
            }
            let r = std::fs::read(&path).map_err(|e| e.to_string());
            let _ = std::fs::remove_file(&path);
            r
        }
        _ => {
            let s = crate::sinks::Sink::new(crate::sinks::Policy::Random(tag));
            let mut b = Builder::new(s.clone()).map_err(|e| e.to_string())?;
            for (k, v) in kv {
                b.insert(k, *v).map_err(|e| e.to_string())?;
            }
            b.finish().map_err(|e| e.to_string())?;
            Ok(s.data())
        }
    }
}

fn cases(ctx: &Ctx) -> Vec<Case> {
    let fams = gen::pool(ctx.tier, ctx.seed, 1);
    let want = ctx.tier.pick(2000, 20_000);
    let mut out = vec![];
    for f in &fams {
        let take = match f.name {
            "ab3-subsets" => want / 3,
            "abc2-subsets" => want / 6,
            "fanout" => want / 4,
            "single-bytes" => 40,
            "long-keys" => 8,
            "random" => want / 3,
            "corpus" => f.count,
            "bulk" => 2,
            "duplicated-wide-fans" | "fan-then-single-path-to-the-shared-suffix" => 40,
            "cache-digest-collision" | "fanout-x-width" => 24,
            "recurring-wide-nodes-after-filler" => f.count,
            _ => 0,
        };
        let take = take.min(f.count);
        if take == 0 {
            continue;
        }
        let step = (f.count / take).max(1);
        let mut i = (ctx.seed as usize) % step;
        while i < f.count {
            out.push((f.make)(i));
            i += step;
        }
    }
    out
}

/// the deterministic list used by parent and children for the cross-process comparison
fn xproc_cases(seed: u64) -> Vec<(Kv, (usize, usize))> {
    let mut v = vec![];
    let mut rng = Rng::new(seed, 0xC15);
    for i in 0..40 {
        let alpha = gen::alphabet(&mut rng);
        let n = 1 + rng.usize(2000);
        let keys = gen::random_keys(&mut rng, n, &alpha, 6);
        v.push((gen::assign(keys, i % gen::NSTYLES, &mut rng), [(10_000, 2), (3, 2), (1, 1), (7, 2)][i % 4]));
    }
    for name in ["words-10000", "words-100000"].iter() {
        let keys = gen::corpus(name);
        if !keys.is_empty() {
            v.push((gen::assign(keys.clone(), 1, &mut rng), (10_000, 2)));
            v.push((gen::assign(keys, 5, &mut rng), (3, 2)));
        }
    }
    v
}

fn xproc_digests(seed: u64) -> Vec<(u64, u64, u64)> {
    xproc_cases(seed)
        .iter()
        .map(|(kv, g)| {
            build::stats_reset();
            let b = build::build(Front::RawGeom(g.0, g.1), kv).unwrap_or_default();
            let d = digest(&b);
            (d.0, d.1, build::stats().evictions)
        })
        .collect()
}

/// `fstmon C15-starved --seed N`: the same small sequences, but every allocation of 256 KiB or more fails. Either the
/// process dies (allocation failure aborts) or it must print the same digests as everybody else.
pub fn starved_child(seed: u64) -> i32 {
    let cases = small_xproc_cases(seed);
    crate::allocmeter::refuse_allocations_from(256 << 10);
    for (i, kv) in cases.iter().enumerate() {
        let mut b = Builder::new(Vec::new()).unwrap();
        for (k, v) in kv {
            b.insert(k, *v).unwrap();
        }
        let d = digest(&b.into_inner().unwrap());
        println!("digest {} {:016x} {:016x} 0", i, d.0, d.1);
    }
    0
}

fn small_xproc_cases(seed: u64) -> Vec<Kv> {
    let mut rng = Rng::new(seed, 0x57a2);
    (0..6)
        .map(|i| {
            let keys = gen::random_keys(&mut rng, 30 + i * 40, b"abcdefgh", 5);
            gen::assign(keys, [5usize, 1, 0][i % 3], &mut rng)
        })
        .collect()
}

/// `fstmon C15-child --seed N`: print one digest line per cross-process case
pub fn child(seed: u64) -> i32 {
    for (i, d) in xproc_digests(seed).iter().enumerate() {
        println!("digest {} {:016x} {:016x} {}", i, d.0, d.1, d.2);
    }
    0
}

pub fn run(ctx: &Ctx) -> i32 {
    let cs = cases(ctx);
    let tmp = ctx.root.join("target").join("tmp");
    let _ = std::fs::create_dir_all(&tmp);
    let ev = ctx.par(|shard, n, ev| {
        for (ci, case) in cs.iter().enumerate() {
            if ci % n != shard {
                continue;
            }
            let kv = &case.kv;
            let reference = match guard(|| build::build(Front::RawMemoryInsert, kv)) {
                Ok(Ok(b)) => b,
                _ => {
                    ev.violate("build-error", "reference build failed".into(), case.describe());
                    continue;
                }
            };
            let big = kv.len() > 20_000;
            let mut paths: Vec<(String, Box<dyn Fn() -> Result<Vec<u8>, String> + '_>)> = vec![];
            for f in MAP_FRONTS.iter() {
                if big && ci % 3 != 0 {
                    continue;
                }
                let f = *f;
                paths.push((format!("{:?}", f), Box::new(move || build::build(f, kv))));
            }
            // (a hook-built builder with an explicit geometry is NOT one of the compared paths: the cache geometry is an
            // input of the build, and the shipped default is whatever Builder::new uses)
            if case.set {
                for f in SET_FRONTS.iter() {
                    let f = *f;
                    paths.push((format!("{:?}", f), Box::new(move || build::build(f, kv))));
                }
            }
            if !kv.is_empty() {
                for p in 2..=(if big { 2 } else { 5 }) {
                    paths.push((format!("union of {} partial FSTs -> builder", p), Box::new(move || via_union(kv, p, ci + p, false))));
                }
                if case.set {
                    paths.push(("set union of 3 partial sets -> SetBuilder::extend_stream".into(), Box::new(move || via_union(kv, 3, ci, true))));
                }
            }
            for w in 0..3 {
                if big && w != ci % 3 {
                    continue;
                }
                let tmp = &tmp;
                paths.push((["BufWriter(13) sink", "File sink", "random short-write sink"][w].to_string(), Box::new(move || via_sink(kv, w, tmp, (ci * 3 + w) as u64 + ((shard as u64) << 40)))));
            }
            // repeated in-process builds
            for r in 0..2 {
                paths.push((format!("repeat #{}", r + 2), Box::new(move || build::build(Front::RawMemoryInsert, kv))));
            }
            for (name, f) in &paths {
                ev.eval(None);
                ev.distinct_extra += 1;
                ev.count("paths-compared");
                match guard(|| f()) {
                    Err(p) => ev.violate("build-panic", format!("{}: {}", name, p), case.describe()),
                    Ok(Err(e)) => ev.violate("build-error", format!("{}: {}", name, e), case.describe()),
                    Ok(Ok(b)) => {
                        if b != reference {
                            let at = b.iter().zip(reference.iter()).position(|(x, y)| x != y).unwrap_or(b.len().min(reference.len()));
                            ev.violate("bytes-differ", format!("path '{}' produced {} bytes, raw insert {} bytes; first difference at offset {}", name, b.len(), reference.len(), at), J::obj(vec![("case", case.describe()), ("path", J::s(name.clone()))]));
                        }
                    }
                }
            }
            ev.fps.insert(case.fp());
            ev.count(&format!("sequences:{}", case.family));
            if ci % 499 == 3 {
                ev.sample(J::obj(vec![("case", case.describe()), ("paths", J::A(paths.iter().map(|(n, _)| J::s(n.clone())).collect()))]));
            }
        }
    });
    let mut ev = ev;
    // one LARGE sequence (600 000 keys; thorough 3 000 000) through the entry points that know the number of items in advance
    // (from_iter over an exact-size iterator, extend_iter, extend_stream) against the plain insert loop: whatever an entry point
    // derives from a size hint must not reach the bytes
    {
        let nbig: u64 = ctx.tier.pick(600_000, 3_000_000);
        // scattered keys with varied values: plenty of distinct nodes and plenty of re-usable suffixes, so that the node cache is under
        // pressure and its geometry would show in the bytes
        let mut ks: Vec<u64> = (0..nbig).map(|i| crate::rng::mix(i ^ ctx.seed) % 4_000_000_000).collect();
        ks.sort();
        ks.dedup();
        let kv: Kv = ks.iter().enumerate().map(|(i, k)| (format!("{:010}", k).into_bytes(), (i as u64 * 2654435761) % 1000)).collect();
        let nbig = kv.len() as u64;
        let zero: Kv = kv.iter().map(|(k, _)| (k.clone(), 0)).collect();
        let mut refs: Vec<(&str, &Kv, Option<Vec<u8>>)> = vec![("map", &kv, None), ("set", &zero, None)];
        for (what, seq, reference) in refs.iter_mut() {
            *reference = guard(|| build::build(Front::RawMemoryInsert, seq)).ok().and_then(|r| r.ok());
            let fronts: Vec<Front> = if *what == "map" { vec![Front::MapFromIter, Front::RawFromIter, Front::MapExtendIter, Front::MapExtendStream] } else { vec![Front::SetFromIter, Front::SetInsert, Front::SetExtendIter] };
            for f in fronts {
                ev.eval(Some(crate::rng::fnv_u64(crate::rng::fnv(format!("{:?}", f).as_bytes()), nbig)));
                ev.count("paths-compared");
                ev.count("paths-compared:large-sequence");
                match (guard(|| build::build(f, seq)), reference.as_ref()) {
                    (Ok(Ok(b)), Some(r)) => {
                        if &b != r {
                            let at = b.iter().zip(r.iter()).position(|(x, y)| x != y).unwrap_or(b.len().min(r.len()));
                            ev.violate("bytes-differ", format!("a sequence of {} keys ({}): path '{:?}' produced {} bytes, the plain insert loop {} bytes; first difference at offset {}", nbig, what, f, b.len(), r.len(), at), J::U(nbig));
                        }
                    }
                    (Ok(Err(e)), _) => ev.violate("build-error", format!("large sequence through {:?}: {}", f, e), J::U(nbig)),
                    (Err(p), _) => ev.violate("build-panic", format!("large sequence through {:?}: {}", f, p), J::U(nbig)),
                    (_, None) => ev.violate("build-error", "reference build of the large sequence failed".into(), J::U(nbig)),
                }
            }
        }
    }
    // (c) what OTHER builders did earlier in this process is not part of the input: sequences under cache pressure are built, then an
    //     unrelated builder with 1.2 (thorough 4.5) million keys is filled and finished, then the sequences are built again, on this
    //     thread and on a fresh one
    {
        let mut seqs: Vec<Kv> = vec![];
        for (j, nk) in [60_000u64, 140_000].iter().enumerate() {
            let mut ks: Vec<u64> = (0..*nk).map(|i| crate::rng::mix(i ^ ctx.seed ^ (j as u64) << 40) % 4_000_000_000).collect();
            ks.sort();
            ks.dedup();
            seqs.push(ks.iter().enumerate().map(|(i, k)| (format!("{:010}", k).into_bytes(), if j == 0 { 0 } else { (i as u64 * 2654435761) % 1000 })).collect());
        }
        let before: Vec<Option<(u64, u64)>> = seqs.iter().map(|kv| guard(|| build::build(Front::MapInsert, kv)).ok().and_then(|r| r.ok()).map(|b| digest(&b))).collect();
        let nhuge: u64 = ctx.tier.pick(1_200_000, 4_500_000);
        let huge = guard(|| {
            let mut b = fst::MapBuilder::new(std::io::sink()).map_err(|e| e.to_string())?;
            for i in 0..nhuge {
                b.insert(format!("{:012}", i * 3), i % 17).map_err(|e| e.to_string())?;
            }
            b.finish().map_err(|e| e.to_string())
        });
        if !matches!(huge, Ok(Ok(()))) {
            ev.violate("build-error", format!("a builder with {} keys streaming to io::sink() failed", nhuge), J::U(nhuge));
        }
        for (j, kv) in seqs.iter().enumerate() {
            for place in 0..2 {
                ev.eval(Some(crate::rng::fnv_u64(0x15_b16, (j * 2 + place) as u64)));
                ev.count("paths-compared");
                ev.count("paths-compared:after-a-huge-unrelated-build");
                let again = if place == 0 { guard(|| build::build(Front::MapInsert, kv)).ok().and_then(|r| r.ok()).map(|b| digest(&b)) } else { std::thread::scope(|s| s.spawn(|| guard(|| build::build(Front::MapInsert, kv)).ok().and_then(|r| r.ok()).map(|b| digest(&b))).join().ok().flatten()) };
                if again != before[j] || again.is_none() {
                    ev.violate("bytes-differ", format!("a sequence of {} keys gives different bytes ({:?} vs {:?}) after an unrelated builder with {} keys was finished in the same process ({})", kv.len(), before[j], again, nhuge, if place == 0 { "same thread" } else { "fresh thread" }), J::U(kv.len() as u64));
                }
            }
        }
    }
    // (a) rejected inserts are not part of the accepted sequence: a builder that refused calls in between (duplicates
    //     with smaller/equal/larger values, out-of-order keys) must emit the same bytes as a clean build
    // (b) the number of builders alive in the process is not part of the input either
    {
        let mut rng = Rng::new(ctx.seed, 0x15_4e1);
        let idle: Vec<Builder<Vec<u8>>> = (0..40).map(|_| Builder::memory()).collect();
        for i in 0..ctx.tier.pick(300, 3000) {
            let alpha = gen::alphabet(&mut rng);
            let nk = 1 + rng.usize(if i % 10 == 0 { 3000 } else { 60 });
            let keys = gen::random_keys(&mut rng, nk, &alpha, 5);
            let kv = gen::assign(keys, [5usize, 2, 4, 6, 3][i % 5], &mut rng);
            let clean = build::build(Front::RawMemoryInsert, &kv).unwrap_or_default();
            let r = guard(|| {
                let mut b = fst::MapBuilder::memory();
                for (j, (k, v)) in kv.iter().enumerate() {
                    b.insert(k, *v).map_err(|e| e.to_string())?;
                    // now offer things that must be refused
                    match (i + j) % 5 {
                        0 => {
                            let _ = b.insert(k, v / 2);
                        }
                        1 => {
                            let _ = b.insert(k, v.wrapping_add(1));
                        }
                        2 if j > 0 => {
                            let _ = b.insert(&kv[j - 1].0, 1);
                        }
                        3 => {
                            let _ = b.insert(k, 0);
                            let _ = b.insert(k, *v);
                        }
                        _ => {}
                    }
                }
                b.into_inner().map_err(|e| e.to_string())
            });
            ev.eval(Some(crate::rng::fnv_u64(0x15_4e1, i as u64)));
            ev.count("sequences-with-rejected-calls");
            match r {
                Ok(Ok(b)) if b == clean => {}
                Ok(Ok(b)) => {
                    let content_same = Fst::new(&b[..]).map(|f| f.stream().into_byte_vec() == kv).unwrap_or(false);
                    ev.violate("bytes-differ", format!("a builder that refused duplicate/out-of-order calls in between produced {} bytes, a clean build of the accepted sequence {} bytes (content equal: {}; 40 idle builders alive)", b.len(), clean.len(), content_same), J::A(kv.iter().take(10).map(|(k, v)| J::A(vec![J::bytes(k), J::U(*v)])).collect()));
                }
                Ok(Err(e)) => ev.violate("build-error", format!("accepted insert failed after rejected calls: {}", e), J::Null),
                Err(p) => ev.violate("build-panic", format!("builder panicked around rejected calls: {}", p), J::Null),
            }
        }
        // the cross-process sequences once more, now with 40 idle builders alive
        let crowded = xproc_digests(ctx.seed);
        ev.eval(Some(0x15_c0d));
        ev.count("builds-with-40-idle-builders-alive");
        let here0 = {
            drop(idle);
            xproc_digests(ctx.seed)
        };
        if crowded.iter().map(|x| (x.0, x.1)).collect::<Vec<_>>() != here0.iter().map(|x| (x.0, x.1)).collect::<Vec<_>>() {
            ev.violate("bytes-differ", "the same sequences give different bytes while 40 other (idle) builders are alive in the process".into(), J::Null);
        }
    }
    // (c) a build that FAILED earlier on this thread is not part of the input of the next build
    {
        let mut rng = Rng::new(ctx.seed, 0x15_fa1);
        for i in 0..ctx.tier.pick(200, 2000) {
            let alpha = gen::alphabet(&mut rng);
            let nk = 2 + rng.usize(80);
            let keys = gen::random_keys(&mut rng, nk, &alpha, 5);
            let kv = gen::assign(keys, [5usize, 1, 4, 0][i % 4], &mut rng);
            let clean = build::build(Front::RawMemoryInsert, &kv).unwrap_or_default();
            // a doomed build on a sink that fails at a random write call (and sometimes a panicking one is avoided)
            let fail_at = rng.usize(40);
            let _ = guard(|| {
                let sink = crate::sinks::Sink::new(crate::sinks::Policy::FailWriteAt(fail_at, crate::sinks::Fault::Err(std::io::ErrorKind::Other)));
                if let Ok(mut b) = Builder::new(sink) {
                    for (k, v) in &kv {
                        if b.insert(k, *v).is_err() {
                            break;
                        }
                    }
                    let _ = b.finish();
                }
            });
            let front = [Front::RawMemoryInsert, Front::MapInsert, Front::RawNewVec, Front::MapFromIter][i % 4];
            ev.eval(Some(crate::rng::fnv_u64(0x15_fa1, i as u64)));
            ev.count("builds-after-a-failed-build-on-the-same-thread");
            match guard(|| build::build(front, &kv)) {
                Ok(Ok(b)) if b == clean => {}
                Ok(Ok(b)) => ev.violate("bytes-differ", format!("after a build that failed with an I/O error on the same thread, {:?} produced {} bytes instead of {}", front, b.len(), clean.len()), J::Null),
                Ok(Err(e)) => ev.violate("build-error", format!("build after a failed build: {}", e), J::Null),
                Err(p) => ev.violate("build-panic", format!("build after a failed build panicked: {}", p), J::Null),
            }
        }
    }
    // (d) a process in which large allocations fail either dies or produces the same bytes
    {
        let want: Vec<(u64, u64)> = small_xproc_cases(ctx.seed)
            .iter()
            .map(|kv| digest(&build::build(Front::RawNewVec, kv).unwrap_or_default()))
            .collect();
        ev.eval(Some(0x57a2));
        let out = std::env::current_exe().ok().and_then(|e| std::process::Command::new(e).arg("C15-starved").arg("--seed").arg(ctx.seed.to_string()).output().ok());
        match out {
            Some(o) => {
                let got: Vec<(u64, u64)> = String::from_utf8_lossy(&o.stdout)
                    .lines()
                    .filter(|l| l.starts_with("digest "))
                    .map(|l| {
                        let f: Vec<&str> = l.split_whitespace().collect();
                        (u64::from_str_radix(f[2], 16).unwrap_or(0), u64::from_str_radix(f[3], 16).unwrap_or(1))
                    })
                    .collect();
                if got.is_empty() {
                    ev.count("memory-starved-child:died-without-output(property holds vacuously)");
                } else {
                    ev.count("memory-starved-child:produced-output");
                    if got[..] != want[..got.len()] {
                        ev.violate("bytes-differ", "a process in which allocations >= 256 KiB fail still builds, but its bytes differ from a normal build of the same sequences (the output depends on available memory)".into(), J::Null);
                    }
                }
            }
            None => ev.count("memory-starved-child:not-started(inconclusive)"),
        }
    }
    // concurrent threads: the same sequences built simultaneously in 16 threads (incl. tiny geometries with evictions)
    let here = xproc_digests(ctx.seed);
    let evict_cases = here.iter().filter(|d| d.2 > 0).count();
    ev.add("hook:cross-process-cases-with-evictions", evict_cases as u64);
    let threads: Vec<Vec<(u64, u64, u64)>> = std::thread::scope(|s| {
        let hs: Vec<_> = (0..16).map(|_| s.spawn(|| xproc_digests(ctx.seed))).collect();
        hs.into_iter().map(|h| h.join().unwrap_or_default()).collect()
    });
    for (t, d) in threads.iter().enumerate() {
        ev.eval(Some(crate::rng::fnv_u64(0x7eada, t as u64)));
        ev.count("concurrent-thread-runs");
        if d.iter().map(|x| (x.0, x.1)).collect::<Vec<_>>() != here.iter().map(|x| (x.0, x.1)).collect::<Vec<_>>() {
            ev.violate("bytes-differ-across-threads", format!("thread {} produced different bytes for the same sequences", t), J::Null);
        }
    }
    // child processes
    let exe = std::env::current_exe().ok();
    for c in 0..2 {
        ev.eval(Some(crate::rng::fnv_u64(0xc411d, c)));
        let out = exe.as_ref().and_then(|e| std::process::Command::new(e).arg("C15-child").arg("--seed").arg(ctx.seed.to_string()).env("VERIF_CHILD_SALT", c.to_string()).output().ok());
        match out {
            Some(o) if o.status.success() => {
                let text = String::from_utf8_lossy(&o.stdout);
                let got: Vec<(u64, u64)> = text
                    .lines()
                    .filter(|l| l.starts_with("digest "))
                    .map(|l| {
                        let f: Vec<&str> = l.split_whitespace().collect();
                        (u64::from_str_radix(f[2], 16).unwrap_or(0), u64::from_str_radix(f[3], 16).unwrap_or(1))
                    })
                    .collect();
                ev.count("child-process-runs");
                if got != here.iter().map(|x| (x.0, x.1)).collect::<Vec<_>>() {
                    let i = got.iter().zip(here.iter()).position(|(a, b)| (a.0, a.1) != (b.0, b.1)).unwrap_or(0);
                    ev.violate("bytes-differ-across-processes", format!("child process {} produced different bytes for cross-process case #{} (and possibly more)", c, i), J::U(i as u64));
                }
            }
            _ => {
                ev.count("child-process-failed(inconclusive)");
            }
        }
    }
    finish(
        ctx,
        ev,
        Spec {
            level: "exploration",
            rule: "one evaluation = one build of a key/value sequence through one API path compared byte-for-byte with the raw Builder::memory()+insert build of the same sequence; paths: 9 map front ends (raw memory/new/extend_iter/extend_stream/from_iter_map, MapBuilder insert/extend_iter/extend_stream, Map::from_iter), 5 set front ends where values are zero (raw add, SetBuilder insert/extend_iter/extend_stream, Set::from_iter), union of 2..5 partial FSTs streamed into a builder (three ways of splitting), set union -> SetBuilder::extend_stream, BufWriter/File/short-writing sinks, repeated builds; builders that refused duplicate/out-of-order calls in between vs a clean build of the accepted sequence; builds while 40 idle builders are alive; builds right after a build that failed with an I/O error on the same thread; a child process whose allocator refuses allocations >= 256 KiB (it may die, but if it builds the bytes must be the same); the 44 cross-process sequences (random maps + word lists, incl. tiny cache geometries where evictions occur) are additionally built in 16 concurrent threads and in 2 child processes and compared by 128-bit digest; non-trivial = every path; distinct = (sequence, path)",
            assumptions: vec!["different cache geometries may legitimately give different bytes; determinism is judged per geometry".into()],
            floors: vec![("paths-compared", 10_000), ("paths-compared:large-sequence", 7), ("concurrent-thread-runs", 16), ("child-process-runs", 2), ("sequences-with-rejected-calls", 100), ("builds-after-a-failed-build-on-the-same-thread", 100)],
            exhaustive: Some(false),
        },
    )
}
