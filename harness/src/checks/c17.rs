//! C17 - Levenshtein automaton accepts exactly the keys within the edit distance.
//! Oracle: O(|q||k|) edit distance over Unicode scalar values.
use crate::ctx::{finish, guard, Ctx, Ev, Spec};
use crate::json::J;
use crate::levref;
use crate::rng::Rng;
use fst::automaton::{Levenshtein, LevenshteinError};
use fst::{Automaton, IntoStreamer, Set, Streamer};

const ALPHA: [char; 8] = ['a', 'é', 'ê', '☃', '☄', '😀', '😁', '𝄞'];
/// pairs that share their CONTINUATION bytes but differ in the lead byte (é C3 A9 / © C2 A9, ☃ E2 98 83 / U+1603 E1 98 83,
/// 😀 F0 9F 98 80 / U+5F600 F1 9F 98 80) or in a middle byte (😀 / U+1D600 F0 9D 98 80)
const ALPHA2: [char; 8] = ['a', 'é', '©', '☃', '\u{1603}', '😀', '\u{1D600}', '\u{5F600}'];

fn strings(alpha: &[char], maxlen: usize) -> Vec<String> {
    let mut out = vec![String::new()];
    let mut layer = vec![String::new()];
    for _ in 0..maxlen {
        let mut next = vec![];
        for s in &layer {
            for c in alpha {
                let mut t = s.clone();
                t.push(*c);
                next.push(t);
            }
        }
        out.extend(next.iter().cloned());
        layer = next;
    }
    out
}

/// run the automaton over the bytes of k
fn run_lev(lev: &Levenshtein, k: &[u8]) -> bool {
    let mut st = lev.start();
    for &b in k {
        st = lev.accept(&st, b);
    }
    lev.is_match(&st)
}

/// number of DISTINCT live states reachable from the start state over all 256 bytes (breadth first, through the public
/// Automaton interface only, so it does not depend on how states are numbered); stops counting at `cap`
fn reachable_states(lev: &Levenshtein, cap: usize) -> usize {
    let mut seen: std::collections::HashSet<usize> = std::collections::HashSet::new();
    let mut queue: Vec<Option<usize>> = vec![];
    let s = lev.start();
    if let Some(id) = s {
        seen.insert(id);
        queue.push(s);
    }
    while let Some(st) = queue.pop() {
        for b in 0..=255u8 {
            let n = lev.accept(&st, b);
            if let Some(id) = n {
                if seen.insert(id) {
                    if seen.len() > cap {
                        return seen.len();
                    }
                    queue.push(n);
                }
            }
        }
    }
    seen.len()
}

/// q and k contain two DISTINCT scalars sharing a proper UTF-8 byte prefix (the class in which the repaired defect lived)
fn shares_prefix(q: &str, k: &str) -> bool {
    for a in q.chars() {
        for b in q.chars().chain(k.chars()) {
            if a != b {
                let mut ba = [0u8; 4];
                let mut bb = [0u8; 4];
                let sa = a.encode_utf8(&mut ba).as_bytes().to_vec();
                let sb = b.encode_utf8(&mut bb).as_bytes().to_vec();
                if sa.len() > 1 && sb.len() > 1 && sa[0] == sb[0] {
                    return true;
                }
            }
        }
    }
    false
}

fn check_query(q: &str, d: u32, keys: &[String], set: Option<&Set<Vec<u8>>>, ev: &mut Ev) {
    let lev = match guard(|| Levenshtein::new(q, d)) {
        Err(p) => {
            ev.violate("lev-panic", format!("Levenshtein::new({:?},{}) panicked: {}", q, d, p), J::s(q));
            return;
        }
        Ok(Err(LevenshteinError::TooManyStates(l))) => {
            ev.count("build:TooManyStates");
            if l != 10_000 {
                ev.violate("lev-limit", format!("Levenshtein::new({:?},{}) reported TooManyStates({}) but the default limit is 10000", q, d, l), J::s(q));
            }
            return;
        }
        Ok(Ok(l)) => l,
    };
    ev.count("build:Ok");
    let nstates = reachable_states(&lev, 10_000);
    if nstates > 10_000 {
        ev.violate("lev-limit", format!("automaton for ({:?},{}) has more than 10000 distinct reachable states although the default limit is 10000", q, d), J::s(q));
    }
    ev.max("max:reachable-states-of-a-default-limit-automaton", nstates as u64);
    let mut bad = 0;
    let mut want_keys: Vec<&String> = vec![];
    for k in keys {
        let want = levref::distance(q, k) <= d as usize;
        if want {
            want_keys.push(k);
        }
        ev.eval(None);
        ev.count(if want { "triples:within-distance" } else { "triples:beyond-distance" });
        if shares_prefix(q, k) {
            ev.count("triples:distinct-scalars-sharing-a-utf8-prefix");
        }
        let got = run_lev(&lev, k.as_bytes());
        if got != want && bad < 3 {
            bad += 1;
            ev.violate(
                "lev-mismatch",
                format!("Levenshtein::new({:?},{}) {} {:?} but the edit distance in scalar values is {}", q, d, if got { "accepts" } else { "rejects" }, k, levref::distance(q, k)),
                J::obj(vec![("query", J::s(q)), ("distance", J::U(d as u64)), ("key", J::s(k.clone())), ("query_bytes", J::s(crate::json::hex(q.as_bytes()))), ("key_bytes", J::s(crate::json::hex(k.as_bytes())))]),
            );
        }
    }
    if let Some(set) = set {
        ev.eval(None);
        ev.count("set-searches");
        match guard(|| {
            let mut s = set.search(&lev).into_stream();
            let mut out: Vec<Vec<u8>> = vec![];
            while let Some(k) = s.next() {
                out.push(k.to_vec());
            }
            out
        }) {
            Err(p) => ev.violate("lev-panic", format!("Set::search(Levenshtein({:?},{})) panicked: {}", q, d, p), J::s(q)),
            Ok(got) => {
                let mut want: Vec<Vec<u8>> = want_keys.iter().map(|k| k.as_bytes().to_vec()).collect();
                want.sort();
                if got != want {
                    ev.violate("lev-search-mismatch", format!("Set::search(Levenshtein({:?},{})) returned {} keys, the oracle {}", q, d, got.len(), want.len()), J::obj(vec![("query", J::s(q)), ("distance", J::U(d as u64))]));
                }
            }
        }
    }
}

fn check_limits(q: &str, d: u32, probe_keys: &[String], ev: &mut Ev) {
    // reference behaviour: default limit
    let reference = match guard(|| Levenshtein::new(q, d)) {
        Ok(Ok(l)) => l,
        _ => return,
    };
    let mut first_ok: Option<usize> = None;
    let mut limit = 1usize;
    while limit < 20_000 {
        ev.eval(None);
        ev.count("limit-probes");
        match guard(|| Levenshtein::new_with_limit(q, d, limit)) {
            Err(p) => {
                ev.violate("lev-panic", format!("new_with_limit({:?},{},{}) panicked: {}", q, d, limit, p), J::s(q));
                return;
            }
            Ok(Err(LevenshteinError::TooManyStates(l))) => {
                ev.count("limit-probes:TooManyStates");
                if l != limit {
                    ev.violate("lev-limit", format!("new_with_limit({:?},{},{}) reported TooManyStates({})", q, d, limit, l), J::s(q));
                }
                if let Some(f) = first_ok {
                    ev.violate("lev-limit", format!("new_with_limit({:?},{},..) succeeded with limit {} but fails with the larger limit {}", q, d, f, limit), J::s(q));
                    return;
                }
            }
            Ok(Ok(lev)) => {
                ev.count("limit-probes:Ok");
                if first_ok.is_none() {
                    first_ok = Some(limit);
                }
                let nstates = reachable_states(&lev, limit);
                if nstates > limit {
                    ev.violate("lev-limit", format!("new_with_limit({:?},{},{}) returned an automaton with more than {} distinct reachable states", q, d, limit, limit), J::s(q));
                    return;
                }
                for k in probe_keys {
                    let g = run_lev(&lev, k.as_bytes());
                    let r = run_lev(&reference, k.as_bytes());
                    if g != r {
                        ev.violate("lev-limit", format!("new_with_limit({:?},{},{}) behaves differently from the default-limit automaton on {:?}", q, d, limit, k), J::s(q));
                        return;
                    }
                }
                if limit >= first_ok.unwrap() + 2 {
                    break;
                }
            }
        }
        limit += if first_ok.is_some() || limit < 64 { 1 } else { 1 + limit / 8 };
    }
}

pub fn run(ctx: &Ctx) -> i32 {
    let queries = strings(&ALPHA, ctx.tier.pick(3, 4));
    let keys = strings(&ALPHA, 4);
    let dmax = 2u32;
    let mut sorted: Vec<Vec<u8>> = keys.iter().map(|k| k.as_bytes().to_vec()).collect();
    sorted.sort();
    let set = Set::from_iter(sorted.iter()).expect("set of all keys");
    let nq = queries.len();
    // more alphabets, each exhaustive for q, k <= 3: scalars at the encoding-length boundaries and scalars whose last
    // (or only) continuation byte is the extreme 0x80 / 0xBF
    // ... and two alphabets of "byte siblings": scalars whose encodings differ ONLY in the lead byte (C2/C3/C4/D1 A9; E1/E2/E3 81 A9;
    // EB/EC/ED 81 A9; F0/F1/F2 90 81 A9), adjacent lead bytes included - what the UTF-8 automaton shares between characters
    let more: [[char; 8]; 6] = [
        ['\u{7f}', '\u{80}', 'ÿ', '\u{7ff}', '\u{800}', '☿', '\u{ffff}', '😿'],
        ['a', '\u{81}', '\u{bf}', 'é', '\u{10000}', '\u{10ffff}', '\u{e000}', '\u{d7ff}'],
        ['©', 'é', 'ĩ', '\u{469}', '\u{1069}', '\u{2069}', '\u{3069}', 'a'],
        ['\u{b069}', '\u{c069}', '\u{d069}', '\u{10069}', '\u{50069}', '\u{90069}', '\u{e8}', '\u{2068}'],
        // scalars that share their lead byte(s) and differ in ONE continuation byte, the extremes 0x80 and 0xBF included
        ['\u{c0}', 'é', 'ÿ', '\u{2600}', '☃', '\u{263f}', '\u{1f600}', '\u{1f63f}'],
        ['\u{2fc0}', '\u{2003}', '\u{1ffc0}', '\u{3f000}', '\u{10000}', '\u{1f000}', '\u{203f}', '\u{1f03f}'],
    ];
    let more_sets: Vec<(Vec<String>, Set<Vec<u8>>)> = more
        .iter()
        .map(|al| {
            let ks = strings(al, 3);
            let mut sorted: Vec<Vec<u8>> = ks.iter().map(|k| k.as_bytes().to_vec()).collect();
            sorted.sort();
            (ks, Set::from_iter(sorted.iter()).expect("set"))
        })
        .collect();
    let queries2 = strings(&ALPHA2, 3);
    let keys2 = strings(&ALPHA2, 3);
    let mut sorted2: Vec<Vec<u8>> = keys2.iter().map(|k| k.as_bytes().to_vec()).collect();
    sorted2.sort();
    let set2 = Set::from_iter(sorted2.iter()).expect("set of all keys (second alphabet)");
    let ev = ctx.par(|shard, n, ev| {
        for (qi, q) in queries2.iter().enumerate() {
            if qi % n != shard {
                continue;
            }
            for d in 0..=dmax {
                let before = ev.evaluations;
                check_query(q, d, &keys2, Some(&set2), ev);
                ev.distinct_extra += ev.evaluations - before;
                ev.count("queries:second-alphabet");
            }
        }
        for (ks, set) in more_sets.iter() {
            for (qi, q) in ks.iter().enumerate() {
                if qi % n != shard {
                    continue;
                }
                for d in 0..=dmax {
                    let before = ev.evaluations;
                    check_query(q, d, ks, Some(set), ev);
                    ev.distinct_extra += ev.evaluations - before;
                    ev.count("queries:boundary-alphabets");
                }
            }
        }
        // two more exhaustive alphabets of boundary scalars (U+007F/80/81/BF/FF/7FF/800/D7FF/E000/FFFF/10000/10FFFF, ☿, 😿: last continuation byte 0x80 or 0xBF), one automaton with more than 65536 states (only reachable through new_with_limit)
        if shard == n - 1 {
            let q: String = "the quick brown fox jumps over the lazy dog and keeps running to the bank".chars().take(72).collect();
            ev.fps.insert(crate::rng::fnv(q.as_bytes()));
            match guard(|| Levenshtein::new_with_limit(&q, 3, 1_000_000)) {
                Ok(Ok(lev)) => {
                    ev.count("build:huge-automaton-Ok");
                    let mut rng = Rng::new(ctx.seed, 0x17_b16);
                    let qc: Vec<char> = q.chars().collect();
                    let mut bad = 0;
                    for i in 0..600 {
                        let mut k = qc.clone();
                        for _ in 0..(i % 6) {
                            match rng.below(3) {
                                0 if !k.is_empty() => {
                                    let p = rng.usize(k.len());
                                    k.remove(p);
                                }
                                1 => {
                                    let p = rng.usize(k.len() + 1);
                                    k.insert(p, *rng.pick(&['x', 'e', ' ', 'é']));
                                }
                                _ if !k.is_empty() => {
                                    let p = rng.usize(k.len());
                                    k[p] = *rng.pick(&['x', 'e', ' ', 'é']);
                                }
                                _ => {}
                            }
                        }
                        let k: String = k.into_iter().collect();
                        let want = levref::distance(&q, &k) <= 3;
                        let got = run_lev(&lev, k.as_bytes());
                        ev.eval(None);
                        ev.distinct_extra += 1;
                        if got != want && bad < 2 {
                            bad += 1;
                            ev.violate("lev-mismatch", format!("new_with_limit(72-char query, 3, 1000000) {} {:?} but the edit distance is {}", if got { "accepts" } else { "rejects" }, k, levref::distance(&q, &k)), J::s(k.clone()));
                        }
                    }
                }
                Ok(Err(_)) => ev.count("build:huge-automaton-TooManyStates"),
                Err(p) => ev.violate("lev-panic", format!("new_with_limit(72-char query, 3, 1000000) panicked: {}", p), J::Null),
            }
        }
        // LARGE distances (around 255/256 and 511/512, where a narrow cell type would saturate or wrap) with tiny queries, only
        // reachable through new_with_limit; keys just inside and just outside the distance, single- and multi-byte
        {
            let mut idx = 0usize;
            for q in ["", "a", "é", "ab"].iter() {
                for &d in [200u32, 254, 255, 256, 257, 300, 511, 512, 600].iter() {
                    idx += 1;
                    if idx % n != shard || (q.chars().count() == 2 && d > 300) {
                        continue;
                    }
                    ev.fps.insert(crate::rng::fnv_u64(crate::rng::fnv(q.as_bytes()), 0xb16_d000 + d as u64));
                    match guard(|| Levenshtein::new_with_limit(q, d, 2_000_000)) {
                        Ok(Ok(lev)) => {
                            ev.count("build:large-distance-Ok");
                            let ql = q.chars().count();
                            let mut bad = 0;
                            for &kl in [0usize, 1, d as usize - 1, d as usize, d as usize + 1, d as usize + ql, d as usize + ql + 1, d as usize + ql + 2, 2 * d as usize + 5].iter() {
                                for fill in ["x", "é", "a", "☃"].iter() {
                                    for tail in ["", q].iter() {
                                        let k: String = format!("{}{}", fill.repeat(kl), tail);
                                        let dist = levref::distance(q, &k);
                                        let want = dist <= d as usize;
                                        let got = run_lev(&lev, k.as_bytes());
                                        ev.eval(None);
                                        ev.distinct_extra += 1;
                                        ev.count(if want { "large-distance:within" } else { "large-distance:beyond" });
                                        if got != want && bad < 2 {
                                            bad += 1;
                                            ev.violate("lev-mismatch", format!("new_with_limit({:?}, {}, 2000000) {} a key of {} x {:?} + {:?} whose edit distance is {}", q, d, if got { "accepts" } else { "rejects" }, kl, fill, tail, dist), J::obj(vec![("query", J::s(*q)), ("distance", J::U(d as u64)), ("key_chars", J::U(kl as u64))]));
                                        }
                                    }
                                }
                            }
                        }
                        Ok(Err(_)) => ev.count("build:large-distance-TooManyStates"),
                        Err(p) => ev.violate("lev-panic", format!("new_with_limit({:?}, {}, 2000000) panicked: {}", q, d, p), J::Null),
                    }
                }
            }
        }
        // queries of EVERY length 1..=40 (and 47, 48, 63, 64, 65) at d = 1, 2, 3 (and d = 4..6 for lengths <= 21; at most 60000 states - larger constructions count as TooManyStates): a length
        // combined with a distance may hit a packing / word-size coincidence that neither parameter hits alone. Probed with
        // copies of the query edited 0..d+2 times, with the edits concentrated at the front, in the middle or at the end.
        {
            let base: Vec<char> = "abcdefghijklmnopqrstuvwxyz012345é78ABCDEFGHIJKLMNOPQRSTUVWXYZ☃!?+-=*/%<>".chars().collect();
            let lens: Vec<usize> = (1..=40).chain([47usize, 48, 63, 64, 65].iter().cloned()).collect();
            let mut combos: Vec<(usize, u32)> = vec![];
            for &l in &lens {
                for d in 1..=3u32 {
                    if l > 48 && d > 1 {
                        continue;
                    }
                    combos.push((l, d));
                }
                if l <= 21 {
                    for d in 4..=6u32 {
                        combos.push((l, d));
                    }
                }
            }
            for (ci, (l, d)) in combos.iter().enumerate() {
                if ci % n != shard {
                    continue;
                }
                let qc: Vec<char> = base[..(*l).min(base.len())].to_vec();
                let q: String = qc.iter().collect();
                match guard(|| Levenshtein::new_with_limit(&q, *d, 60_000)) {
                    Ok(Ok(lev)) => {
                        ev.count("length-x-distance-automata");
                        let mut rng = Rng::new(ctx.seed, 0x17_1e + ci as u64);
                        let mut bad = 0;
                        for i in 0..90usize {
                            let mut k = qc.clone();
                            let nedits = i % (*d as usize + 3);
                            let zone = i / 30; // 0 front, 1 middle, 2 end
                            for _ in 0..nedits {
                                let span = (k.len() / 3).max(1);
                                let at = |rng: &mut Rng, len: usize| -> usize {
                                    let lo = match zone {
                                        0 => 0,
                                        1 => len / 3,
                                        _ => len.saturating_sub(span),
                                    };
                                    (lo + rng.usize(span)).min(len.saturating_sub(1))
                                };
                                match rng.below(3) {
                                    0 if !k.is_empty() => {
                                        let p = at(&mut rng, k.len());
                                        k.remove(p);
                                    }
                                    1 => {
                                        let p = at(&mut rng, k.len() + 1);
                                        k.insert(p, *rng.pick(&['a', 'z', '#', 'é']));
                                    }
                                    _ if !k.is_empty() => {
                                        let p = at(&mut rng, k.len());
                                        k[p] = *rng.pick(&['a', 'z', '#', 'ê']);
                                    }
                                    _ => {}
                                }
                            }
                            let k: String = k.into_iter().collect();
                            let want = levref::distance(&q, &k) <= *d as usize;
                            let got = run_lev(&lev, k.as_bytes());
                            ev.eval(None);
                            ev.distinct_extra += 1;
                            if got != want && bad < 2 {
                                bad += 1;
                                ev.violate("lev-mismatch", format!("new_with_limit({:?} ({} characters), {}, 60000) {} {:?} but the edit distance is {}", q, l, d, if got { "accepts" } else { "rejects" }, k, levref::distance(&q, &k)), J::obj(vec![("query", J::s(q.clone())), ("distance", J::U(*d as u64)), ("key", J::s(k.clone()))]));
                            }
                        }
                    }
                    Ok(Err(_)) => ev.count("length-x-distance-automata:TooManyStates"),
                    Err(p) => ev.violate("lev-panic", format!("new_with_limit({} characters, {}, 60000) panicked: {}", l, d, p), J::s(q.clone())),
                }
            }
        }
        for (qi, q) in queries.iter().enumerate() {
            if qi % n != shard {
                continue;
            }
            for d in 0..=dmax {
                let before = ev.evaluations;
                check_query(q, d, &keys, Some(&set), ev);
                ev.distinct_extra += ev.evaluations - before;
                ev.count("queries");
            }
            if qi % 10 == 3 {
                check_limits(q, (qi % 3) as u32, &keys[..keys.len().min(200)], ev);
                ev.count("limit-series");
            }
            if qi % 131 == 77 {
                ev.sample(J::obj(vec![("query", J::s(q.clone())), ("distances", J::s("0,1,2")), ("keys", J::s(format!("all {} strings over {:?} up to length {}", keys.len(), ALPHA, 4)))]));
            }
        }
        // random longer queries/keys over the alphabet + ASCII + other scripts
        let mut rng = Rng::new(ctx.seed, 0xC17 + shard as u64);
        let wide: Vec<char> = "abcxyz09 éêèëñüß©жяЖ☃☄★\u{1603}日本語😀😁🙂\u{1D600}\u{5F600}𝄞𝄢\u{7f}\u{80}\u{7ff}\u{800}\u{ffff}\u{10000}\u{10ffff}".chars().collect();
        let nrand = ctx.tier.pick(300, 6000) / n;
        for _ in 0..nrand {
            let ql = rng.usize(9);
            let q: String = (0..ql).map(|_| *rng.pick(&wide)).collect();
            let d = rng.below(4) as u32;
            let mut ks: Vec<String> = vec![q.clone()];
            for _ in 0..60 {
                // mutate q by 0..4 edits, or draw a fresh string
                let mut k: Vec<char> = q.chars().collect();
                if rng.chance(1, 5) {
                    let kl = rng.usize(9);
                    k = (0..kl).map(|_| *rng.pick(&wide)).collect();
                } else {
                    for _ in 0..rng.usize(5) {
                        match rng.below(3) {
                            0 if !k.is_empty() => {
                                let p = rng.usize(k.len());
                                k.remove(p);
                            }
                            1 => {
                                let p = rng.usize(k.len() + 1);
                                k.insert(p, *rng.pick(&wide));
                            }
                            _ if !k.is_empty() => {
                                let p = rng.usize(k.len());
                                k[p] = *rng.pick(&wide);
                            }
                            _ => {}
                        }
                    }
                }
                ks.push(k.into_iter().collect());
            }
            let mut h = crate::rng::fnv(q.as_bytes());
            h = crate::rng::fnv_u64(h, d as u64);
            if ev.fps.insert(h) {
                ev.distinct_extra += 60;
            }
            check_query(&q, d, &ks, None, ev);
            ev.count("queries:random-wide");
        }
        // long queries: the default limit either holds or is reported as TooManyStates(10000)
        if shard == 0 {
            for (q, d) in [("aaaaaaaaaaaaaaaaaaaaaaaaaaaaaaaaaaaaaaaa", 3u32), ("the quick brown fox jumps over the lazy dog", 4), ("éêéêéêéêéêéêéêéêéêéêéêéêéêéêéêéêéêéê", 3), ("abcdefghijklmnopqrstuvwxyz", 2)].iter() {
                ev.fps.insert(crate::rng::fnv(q.as_bytes()));
                check_query(q, *d, &[q.to_string(), q[..q.char_indices().nth(3).unwrap().0].to_string(), format!("{}x", q)], None, ev);
                ev.count("queries:long");
            }
        }
    });
    let mut ev = ev;
    ev.note("queries_exhaustive", J::U(nq as u64 * 3));
    finish(
        ctx,
        ev,
        Spec {
            level: "exploration",
            rule: "one evaluation = one (query, distance, key) triple: is_match after feeding the key's UTF-8 bytes to Levenshtein::new(q,d) compared with (edit distance over scalar values <= d); ALL q in A^<=3 (585; thorough A^<=4 = 4681) x d in {0,1,2} x ALL k in A^<=4 (4681) for A = {a, é, ê, ☃, ☄, 😀, 😁, 𝄞} (1-4 byte encodings, pairs sharing 1, 2 and 3 leading bytes), the same exhaustively (q,k in A2^<=3) for A2 = {a, é, ©, ☃, U+1603, 😀, U+1D600, U+5F600} (pairs sharing their continuation bytes but differing in the lead or a middle byte), one automaton with more than 65536 states (72-character query, d=3, limit 10^6) probed with 600 edited copies of the query, plus Set::search over the set of all keys for every (q,d), random queries/keys up to 8 scalars over ASCII + Latin/Cyrillic/CJK/emoji/boundary code points with d<=3, long queries against the default state limit, and new_with_limit series (limit 1.. first success + 2: error payload == limit, monotone, behaviour equal to the default-limit automaton, no more than `limit` distinct reachable states, counted breadth-first through the public interface); non-trivial = every triple; distinct = by construction / fingerprint of (q,d)",
            assumptions: vec!["keys are valid UTF-8 (the statement's domain)".into()],
            floors: vec![("triples:within-distance", 10_000), ("triples:beyond-distance", 10_000), ("triples:distinct-scalars-sharing-a-utf8-prefix", 10_000), ("set-searches", 1000), ("limit-probes:TooManyStates", 100), ("limit-probes:Ok", 30), ("length-x-distance-automata", 150)],
            exhaustive: Some(true),
        },
    )
}
