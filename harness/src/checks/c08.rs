//! C08 - Checksums certify the bytes: built FSTs verify, corrupted ones never do.
use crate::build::{self, Front, GEOMS, MAP_FRONTS};
use crate::ctx::{finish, guard, Ctx, Ev, Spec};
use crate::gen::{self, Case};
use crate::json::J;
use crate::refdec;
use crate::rng::Rng;
use crate::sinks::{Policy, Sink};
use fst::raw::{Builder, Error as RawError, Fst};

fn region(len: usize, pos: usize) -> &'static str {
    if pos < 8 {
        "mutants:version"
    } else if pos < 16 {
        "mutants:type"
    } else if pos >= len - 4 {
        "mutants:checksum"
    } else if pos >= len - 12 {
        "mutants:root-addr"
    } else if pos >= len - 20 {
        "mutants:len"
    } else {
        "mutants:body"
    }
}

/// Some(description) if the mutated image is certified as valid (opens AND verify() is Ok)
fn certified(img: &[u8]) -> Result<Option<&'static str>, String> {
    guard(|| match Fst::new(img) {
        Err(_) => None,
        Ok(f) => match f.verify() {
            Ok(()) => Some("opens and verify() returns Ok"),
            Err(_) => None,
        },
    })
}

/// the same question when the corrupted bytes arrive through `map_data` on an FST that was opened from the good bytes
fn certified_via_map_data(good: &[u8], img: &[u8]) -> Result<Option<&'static str>, String> {
    guard(|| {
        let f = match Fst::new(good.to_vec()) {
            Ok(f) => f,
            Err(_) => return None,
        };
        // the good container has been verified (possibly several times) before the data is swapped: a verdict must never be
        // carried over from earlier bytes to later ones
        let first = f.verify();
        let second = f.verify();
        if first.is_err() || second.is_err() {
            return Some("verify() on the unchanged built bytes fails (first or repeated call)");
        }
        match f.map_data(|_| img.to_vec()) {
            Err(_) => None,
            Ok(g) => match (g.verify(), g.verify()) {
                (Ok(()), _) => Some("verify(), then map_data() onto the corrupted bytes, then verify() returns Ok"),
                (_, Ok(())) => Some("a repeated verify() on the corrupted bytes returns Ok"),
                _ => None,
            },
        }
    })
}

/// A container whose bytes change under an open FST: two generations of the same length behind one AsRef (the safe stand-in for a
/// memory map whose file is rewritten, a double-buffered store, a buffer patched in place).
pub struct TwoGen {
    pub old: Vec<u8>,
    pub new: Vec<u8>,
    pub use_new: std::sync::atomic::AtomicBool,
}
impl AsRef<[u8]> for TwoGen {
    fn as_ref(&self) -> &[u8] {
        if self.use_new.load(std::sync::atomic::Ordering::SeqCst) {
            &self.new
        } else {
            &self.old
        }
    }
}

/// the bytes under an open, already verified container are altered (outside the stored checksum itself, which the container
/// read when it was opened): a later verify() must not return Ok
fn certified_after_change_underneath(good: &[u8], img: &[u8]) -> Result<Option<&'static str>, String> {
    guard(|| {
        let f = match Fst::new(TwoGen { old: good.to_vec(), new: img.to_vec(), use_new: std::sync::atomic::AtomicBool::new(false) }) {
            Ok(f) => f,
            Err(_) => return None,
        };
        if f.verify().is_err() || f.verify().is_err() {
            return Some("verify() on the unchanged built bytes fails (first or repeated call)");
        }
        f.as_inner().use_new.store(true, std::sync::atomic::Ordering::SeqCst);
        match f.verify() {
            Ok(()) => Some("verify() returns Ok on a container that was verified before its bytes were altered underneath"),
            Err(_) => None,
        }
    })
}

fn outcome_class(img: &[u8]) -> &'static str {
    match Fst::new(img) {
        Err(_) => "outcome:open-rejected",
        Ok(f) => match f.verify() {
            Ok(()) => "outcome:certified",
            Err(fst::Error::Fst(RawError::ChecksumMismatch { .. })) => "outcome:checksum-mismatch",
            Err(fst::Error::Fst(RawError::ChecksumMissing)) => "outcome:checksum-missing",
            Err(_) => "outcome:other-error",
        },
    }
}

fn check_built(case: &Case, bytes: &[u8], how: &str, ev: &mut Ev) {
    ev.eval(Some(crate::rng::fnv_add(case.fp(), how.as_bytes())));
    ev.count("built-fsts-verified");
    let r = guard(|| -> Result<(), String> {
        let f = Fst::new(bytes).map_err(|e| format!("does not open: {}", e))?;
        f.verify().map_err(|e| format!("verify() failed: {}", e))?;
        // and as a sub-slice at an odd address
        if bytes.len() >= 512 {
            let off = 1 + bytes.len() % 15;
            let mut buf = vec![0xEEu8; off + bytes.len() + 3];
            buf[off..off + bytes.len()].copy_from_slice(bytes);
            let g = Fst::new(&buf[off..off + bytes.len()]).map_err(|e| format!("does not open at offset {}: {}", off, e))?;
            g.verify().map_err(|e| format!("verify() failed for the same bytes viewed at offset {} of a larger buffer: {}", off, e))?;
        }
        let want = refdec::mask(refdec::crc32c(&bytes[..bytes.len() - 4]));
        let got = u32::from_le_bytes([bytes[bytes.len() - 4], bytes[bytes.len() - 3], bytes[bytes.len() - 2], bytes[bytes.len() - 1]]);
        if want != got {
            return Err(format!("trailing 4 bytes {:#010x} != masked CRC-32C of the preceding bytes {:#010x} (bit-wise reference)", got, want));
        }
        Ok(())
    });
    match r {
        Err(p) => ev.violate("verify-panic", format!("{}: {}", how, p), case.describe()),
        Ok(Err(e)) => ev.violate("built-fst-not-certified", format!("{}: {}", how, e), case.describe()),
        Ok(Ok(())) => {}
    }
}

fn mutate_all(case: &Case, bytes: &[u8], exhaustive_values: bool, rng: &mut Rng, ev: &mut Ev) {
    let mut img = bytes.to_vec();
    let len = img.len();
    let mut bad = 0;
    for pos in 0..len {
        let orig = img[pos];
        let vals: Vec<u8> = if exhaustive_values { (0..=255u8).filter(|v| *v != orig).collect() } else { vec![orig ^ 1, orig ^ 0x80, orig.wrapping_add(1), !orig, rng.next() as u8].into_iter().filter(|v| *v != orig).collect() };
        for v in vals {
            img[pos] = v;
            ev.eval(None);
            ev.count(region(len, pos));
            // every 4th mutant is additionally pushed through the map_data route (always in the footer region)
            let via = if v % 4 == 1 || pos + 20 >= len { certified_via_map_data(bytes, &img) } else { Ok(None) };
            let direct = certified(&img);
            let via = match via {
                Ok(None) if pos + 4 < len && (v % 16 == 3 || pos < 16) => {
                    ev.count("mutants:bytes-altered-under-an-open-verified-container");
                    certified_after_change_underneath(bytes, &img)
                }
                other => other,
            };
            let both = match (direct, via) {
                (Err(p), _) | (_, Err(p)) => Err(p),
                (Ok(Some(w)), _) | (Ok(None), Ok(Some(w))) => Ok(Some(w)),
                (Ok(None), Ok(None)) => Ok(None),
            };
            match both {
                Err(p) => {
                    if bad < 3 {
                        ev.violate("verify-panic", format!("open/verify panicked on a single-byte mutant (offset {} {:#04x}->{:#04x}): {}", pos, orig, v, p), case.describe());
                    }
                    bad += 1;
                }
                Ok(Some(what)) => {
                    if bad < 3 {
                        ev.violate(
                            "corruption-certified",
                            format!("single-byte mutant (offset {} of {}, {:#04x}->{:#04x}, region {}) {}", pos, len, orig, v, region(len, pos), what),
                            J::obj(vec![("case", case.describe()), ("offset", J::U(pos as u64)), ("from", J::U(orig as u64)), ("to", J::U(v as u64)), ("original_hex", J::s(crate::json::hex(&bytes[..bytes.len().min(400)])))]),
                        );
                    }
                    bad += 1;
                }
                Ok(None) => {}
            }
            if pos % 7 == 0 && v % 64 == 1 {
                ev.count(outcome_class(&img));
            }
        }
        img[pos] = orig;
    }
    ev.distinct_extra += 0;
}

fn bursts(case: &Case, bytes: &[u8], n: usize, rng: &mut Rng, ev: &mut Ev) {
    let len = bytes.len();
    for _ in 0..n {
        let mut img = bytes.to_vec();
        let blen = 2 + rng.usize(3);
        let pos = rng.usize(len - blen + 1);
        let mut changed = false;
        for i in 0..blen {
            let v = rng.next() as u8;
            if v != img[pos + i] {
                changed = true;
            }
            img[pos + i] = v;
        }
        if !changed {
            continue;
        }
        ev.eval(None);
        ev.count("mutants:burst-2..4-bytes");
        match certified(&img) {
            Err(p) => ev.violate("verify-panic", format!("open/verify panicked on a burst mutant: {}", p), case.describe()),
            // a multi-byte change can collide with probability 2^-32; the statement quantifies over single bytes.
            Ok(Some(_)) => ev.count("burst-collisions(not judged: statement is about single bytes)"),
            Ok(None) => {}
        }
    }
}

/// synthetic version-3 images of every length: valid header, arbitrary body, footer checksum from the reference
fn fast_path(ctx: &Ctx, shard: usize, n: usize, ev: &mut Ev) {
    let maxl = ctx.tier.pick(4200, 20_000);
    let mut rng = Rng::new(ctx.seed, 0xFA57 + shard as u64);
    // plus lengths around 64 KiB, 1 MiB and 2 MiB (block-wise checksumming would have its seams there)
    let mut lens: Vec<usize> = (36..=maxl).collect();
    for &base in [1usize << 16, 1 << 20, 2 << 20].iter() {
        for d in 0..12usize {
            lens.push(base + d - 4);
        }
    }
    // and multi-megabyte images, every residue of the length mod 8 once per size class (an implementation may hand big inputs to
    // a different kernel: wider slicing, hardware CRC, several lanes combined)
    for &base in [4usize << 20, (4 << 20) + (1 << 16), 5 << 20, 8 << 20, 16 << 20].iter().take(ctx.tier.pick(3, 5)) {
        for d in 0..8usize {
            lens.push(base + 4 + d);
        }
    }
    for (li, l) in lens.into_iter().enumerate() {
        if li % n != shard {
            continue;
        }
        if l >= (1 << 22) {
            ev.count("fastpath:multi-megabyte-images");
        }
        let mut img = vec![0u8; l];
        for b in img.iter_mut() {
            *b = rng.next() as u8;
        }
        img[..8].copy_from_slice(&3u64.to_le_bytes());
        img[8..16].copy_from_slice(&(rng.below(3)).to_le_bytes());
        let root: u64 = if l == 36 { 0 } else { (l - 21) as u64 };
        img[l - 12..l - 4].copy_from_slice(&root.to_le_bytes());
        let sum = refdec::mask(refdec::crc32c(&img[..l - 4]));
        img[l - 4..].copy_from_slice(&sum.to_le_bytes());
        ev.eval(Some(crate::rng::fnv_u64(0xFA57, l as u64)));
        ev.count("fastpath:lengths");
        ev.count(&format!("fastpath:len-mod-16={}", l % 16));
        match guard(|| Fst::new(&img[..]).map(|f| f.verify().is_ok())) {
            Ok(Ok(true)) => {}
            Ok(Ok(false)) => ev.violate("reference-crc-rejected", format!("a {}-byte image whose footer holds the reference masked CRC-32C fails verify(): the crate's checksum differs from CRC-32C/Snappy masking at this length", l), J::U(l as u64)),
            Ok(Err(e)) => ev.violate("reference-crc-rejected", format!("synthetic {}-byte image does not open: {}", l, e), J::U(l as u64)),
            Err(p) => ev.violate("verify-panic", format!("synthetic image of {} bytes: {}", l, p), J::U(l as u64)),
        }
        // special values of the STORED checksum: forge the body so that the correct masked CRC-32C is exactly
        // 0, 1, 0x80000000 or 0xFFFFFFFF; such a file is as valid as any other
        if l >= 48 && l % 37 == 0 {
            for (ti, target) in [0u32, 1, 0x8000_0000, 0xFFFF_FFFF].iter().enumerate() {
                let mut forged = img.clone();
                let n = forged.len() - 4;
                if refdec::forge_masked_crc(&mut forged[..n], 16 + (ti * 5) % (l - 16 - 20 - 4), *target) {
                    forged[n..].copy_from_slice(&target.to_le_bytes());
                    ev.eval(None);
                    ev.distinct_extra += 1;
                    ev.count("fastpath:forged-special-checksum-values");
                    match guard(|| Fst::new(&forged[..]).map(|f| f.verify().map_err(|e| format!("{:?}", e)))) {
                        Ok(Ok(Ok(()))) => {}
                        Ok(Ok(Err(e))) => ev.violate("reference-crc-rejected", format!("a {}-byte version-3 image whose correct masked CRC-32C is {:#010x} (stored in its footer) fails verify(): {}", l, target, e), J::s(crate::json::hex(&forged[..forged.len().min(120)]))),
                        Ok(Err(e)) => ev.violate("reference-crc-rejected", format!("forged {}-byte image does not open: {}", l, e), J::U(l as u64)),
                        Err(p) => ev.violate("verify-panic", format!("forged image of {} bytes: {}", l, p), J::U(l as u64)),
                    }
                }
            }
        }
        // the same image at every address alignment (the checksum code may treat aligned and unaligned data differently)
        if l % 5 == 0 || l >= 1024 && l % 3 == 0 {
            let off = 1 + (l % 31);
            let mut buf = vec![0u8; off + l];
            buf[off..].copy_from_slice(&img);
            ev.count("fastpath:misaligned-views");
            match guard(|| Fst::new(&buf[off..]).map(|f| f.verify().is_ok())) {
                Ok(Ok(true)) => {}
                Ok(_) => ev.violate("reference-crc-rejected", format!("a valid {}-byte image fails verify() when it is viewed at offset {} of a larger buffer (address alignment)", l, off), J::U(l as u64)),
                Err(p) => ev.violate("verify-panic", format!("misaligned view of {} bytes: {}", l, p), J::U(l as u64)),
            }
        }
        // flip one bit anywhere before the checksum (but keep version and the root check intact)
        let pos = 16 + rng.usize(l - 16 - 12);
        img[pos] ^= 1 << rng.below(8);
        match guard(|| Fst::new(&img[..]).map(|f| f.verify().is_ok())) {
            Ok(Ok(true)) => ev.violate("corruption-certified", format!("synthetic {}-byte image with one flipped bit at offset {} still verifies", l, pos), J::U(l as u64)),
            Ok(_) => {}
            Err(p) => ev.violate("verify-panic", format!("synthetic image of {} bytes: {}", l, p), J::U(l as u64)),
        }
    }
}

/// (e) the certification gate as shipped to users of the command line: `fst verify <file>...` must exit 0 when every file is a built
/// FST and non-zero as soon as ONE of the files given (first, middle or last) is a single-byte mutant - corruption is never certified.
fn cli_verify(ctx: &Ctx, ev: &mut Ev) {
    let bin = match std::env::var_os("FST_BIN") {
        Some(b) => std::path::PathBuf::from(b),
        None => {
            ev.count("cli-verify:binary-not-available");
            return;
        }
    };
    let dir = ctx.root.join("target").join("tmp").join(format!("c08-cli-{}", std::process::id()));
    let _ = std::fs::remove_dir_all(&dir);
    if std::fs::create_dir_all(&dir).is_err() {
        return;
    }
    let mut rng = Rng::new(ctx.seed, 0xC08C11);
    let cases = crate::checks::c07::small_cases(ctx, 60);
    let mut good: Vec<(std::path::PathBuf, Vec<u8>)> = vec![];
    for (i, case) in cases.iter().enumerate().take(24) {
        if let Ok(Ok(bytes)) = guard(|| build::build(if case.kv.iter().all(|(_, v)| *v == 0) { Front::SetInsert } else { Front::MapInsert }, &case.kv)) {
            let p = dir.join(format!("good{}.fst", i));
            if std::fs::write(&p, &bytes).is_ok() {
                good.push((p, bytes));
            }
        }
    }
    if good.len() < 4 {
        let _ = std::fs::remove_dir_all(&dir);
        return;
    }
    let run = |files: &[&std::path::Path]| -> Option<bool> {
        let mut c = std::process::Command::new(&bin);
        c.arg("verify");
        for f in files {
            c.arg(f);
        }
        c.env_remove("FST_VERIF_TRACE").env_remove("FST_VERIF_SEED");
        c.output().ok().map(|o| o.status.success())
    };
    // good files only: 1, 2 and 3 at a time
    for i in 0..good.len() {
        let files: Vec<&std::path::Path> = (0..1 + i % 3).map(|j| good[(i + j) % good.len()].0.as_path()).collect();
        ev.eval(Some(crate::rng::fnv_u64(0xC11, i as u64)));
        match run(&files) {
            Some(true) => ev.count("cli-verify:runs-with-only-good-files"),
            Some(false) => ev.violate("built-fst-not-certified", format!("`fst verify` over {} freshly built file(s) exits non-zero", files.len()), J::Null),
            None => ev.count("cli-verify:spawn-failed"),
        }
    }
    // one single-byte mutant among 0..2 good files, in every position of the argument list
    let nmut = ctx.tier.pick(240, 3000);
    let bad = dir.join("mutant.fst");
    for m in 0..nmut {
        let (_, bytes) = &good[m % good.len()];
        let mut img = bytes.clone();
        let len = img.len();
        // regions in rotation: version, type, body, len, root address, checksum
        let pos = match m % 6 {
            0 => rng.usize(8),
            1 => 8 + rng.usize(8),
            2 => {
                if len > 36 {
                    16 + rng.usize(len - 36)
                } else {
                    rng.usize(len)
                }
            }
            3 => len - 20 + rng.usize(8),
            4 => len - 12 + rng.usize(8),
            _ => len - 4 + rng.usize(4),
        };
        let orig = img[pos];
        let newv = if pos == 0 && m % 12 < 6 { [1u8, 2][m % 2] } else { orig ^ (1u8 << rng.below(8)) };
        if newv == orig {
            continue;
        }
        img[pos] = newv;
        if std::fs::write(&bad, &img).is_err() {
            continue;
        }
        let nfiles = 1 + m % 3;
        let at = (m / 3) % nfiles;
        let mut files: Vec<&std::path::Path> = vec![];
        for j in 0..nfiles {
            if j == at {
                files.push(bad.as_path());
            } else {
                files.push(good[(m + j + 1) % good.len()].0.as_path());
            }
        }
        ev.eval(Some(crate::rng::fnv_u64(crate::rng::fnv_u64(0xC12, m as u64), pos as u64 * 256 + newv as u64)));
        ev.count(region(len, pos));
        match run(&files) {
            Some(false) => {
                ev.count("cli-verify:runs-with-a-corrupted-file");
                ev.count(&format!("cli-verify:corrupted-file-at-position-{}-of-{}", at + 1, nfiles));
            }
            Some(true) => ev.violate(
                "corruption-certified",
                format!("`fst verify` exits 0 although argument {} of {} is a {}-byte FST whose byte at offset {} was changed from {:#04x} to {:#04x}", at + 1, nfiles, len, pos, orig, newv),
                J::obj(vec![("offset", J::U(pos as u64)), ("from", J::U(orig as u64)), ("to", J::U(newv as u64)), ("file_position", J::U(at as u64)), ("files", J::U(nfiles as u64)), ("fst", J::bytes(bytes))]),
            ),
            None => ev.count("cli-verify:spawn-failed"),
        }
    }
    let _ = std::fs::remove_dir_all(&dir);
}

pub fn run(ctx: &Ctx) -> i32 {
    let fams = gen::pool(ctx.tier, ctx.seed, ctx.tier.pick(8, 2));
    let small = crate::checks::c07::small_cases(ctx, ctx.tier.pick(400, 2000));
    let quick = ctx.quick();
    let ev = ctx.par(|shard, n, ev| {
        let mut rng = Rng::new(ctx.seed, 0xC08 + shard as u64);
        // (a,b) every built FST verifies and carries the reference checksum
        gen::for_shard(&fams, shard, n, |case| {
            if case.family == "huge-delta" {
                return;
            }
            let g = GEOMS[case.index % GEOMS.len()];
            for front in [Front::RawGeom(g.0, g.1), MAP_FRONTS[case.index % MAP_FRONTS.len()]].iter() {
                if let Ok(Ok(bytes)) = guard(|| build::build(*front, &case.kv)) {
                    check_built(case, &bytes, &format!("{:?}", front), ev);
                }
            }
            // and when written in chunks chosen by a hostile sink
            if case.kv.len() <= 2000 && case.index % 5 == 0 {
                let sink = Sink::new(Policy::Random(ctx.seed ^ case.index as u64));
                let r = guard(|| {
                    let mut b = Builder::new(sink.clone()).map_err(|e| e.to_string())?;
                    for (k, v) in &case.kv {
                        b.insert(k, *v).map_err(|e| e.to_string())?;
                    }
                    b.finish().map_err(|e| e.to_string())
                });
                if let Ok(Ok(())) = r {
                    check_built(case, &sink.data(), "random-chunked sink", ev);
                    check_built(case, &sink.committed_data(), "random-chunked sink that keeps only what was flushed", ev);
                    ev.count("built-fsts-verified:chunked-sink");
                }
            }
        });
        // (c) exhaustive single-byte mutation of small FSTs
        let nsmall = ctx.tier.pick(150, 600);
        let mut taken = 0;
        for (ci, case) in small.iter().enumerate() {
            let bytes = match guard(|| build::build(Front::MapInsert, &case.kv)) {
                Ok(Ok(b)) => b,
                _ => continue,
            };
            let limit = if quick { 300 } else { 2048 };
            if bytes.len() > limit {
                continue;
            }
            taken += 1;
            if taken > nsmall {
                break;
            }
            if taken % n != shard {
                continue;
            }
            ev.fps.insert(case.fp());
            let before = ev.evaluations;
            mutate_all(case, &bytes, bytes.len() <= 300, &mut rng, ev);
            ev.distinct_extra += ev.evaluations - before; // (fst, position, value) triples are distinct by construction
            bursts(case, &bytes, ctx.tier.pick(200, 2000), &mut rng, ev);
            ev.count("fsts-mutated-exhaustively");
            if ci % 9 == 0 {
                ev.sample(J::obj(vec![("case", case.describe()), ("fst_bytes", J::U(bytes.len() as u64)), ("mutants", J::s("every offset x every other byte value"))]));
            }
        }
        // sampled single-byte mutants of a big FST
        if shard < 4 {
            let keys = gen::corpus(["words-10000", "wiki-urls-10000"][shard % 2]);
            if !keys.is_empty() {
                let case = Case { kv: gen::assign(keys, [1, 5][shard / 2], &mut rng), set: false, family: "corpus", index: shard };
                if let Ok(Ok(bytes)) = guard(|| build::build(Front::MapInsert, &case.kv)) {
                    check_built(&case, &bytes, "corpus", ev);
                    let nm = ctx.tier.pick(5_000, 50_000);
                    let mut img = bytes.clone();
                    for _ in 0..nm {
                        let pos = rng.usize(img.len());
                        let orig = img[pos];
                        let v = orig ^ (1 << rng.below(8));
                        img[pos] = v;
                        ev.eval(None);
                        ev.distinct_extra += 1;
                        ev.count(region(img.len(), pos));
                        match certified(&img) {
                            Ok(None) => {}
                            Ok(Some(w)) => ev.violate("corruption-certified", format!("corpus FST ({} bytes): bit flip at offset {} {}", img.len(), pos, w), case.describe()),
                            Err(p) => ev.violate("verify-panic", format!("corpus FST mutant at offset {}: {}", pos, p), case.describe()),
                        }
                        img[pos] = orig;
                    }
                }
            }
        }
        fast_path(ctx, shard, n, ev);
    });
    let mut ev = ev;
    cli_verify(ctx, &mut ev);
    let mut floors: Vec<(&str, u64)> = vec![("cli-verify:runs-with-a-corrupted-file", 100), ("cli-verify:runs-with-only-good-files", 20), ("built-fsts-verified", 1000), ("built-fsts-verified:chunked-sink", 20), ("mutants:version", 1000), ("mutants:type", 1000), ("mutants:body", 1000), ("mutants:len", 1000), ("mutants:root-addr", 1000), ("mutants:checksum", 1000), ("fastpath:lengths", 4000), ("mutants:bytes-altered-under-an-open-verified-container", 1000), ("fastpath:multi-megabyte-images", 24), ("fastpath:forged-special-checksum-values", 100), ("fastpath:misaligned-views", 500)];
    let names: Vec<String> = (0..16).map(|i| format!("fastpath:len-mod-16={}", i)).collect();
    for nm in &names {
        floors.push((nm.as_str(), 100));
    }
    finish(
        ctx,
        ev,
        Spec {
            level: "fault_enumeration",
            rule: "five monitors. (e) the command line gate: `fst verify f1 [f2 f3]` (subprocess, the binary built from the working tree) must exit 0 over freshly built files and non-zero whenever one argument - first, middle or last - is a single-byte mutant (version incl. 3->1/2, type, body, len, root address, checksum regions in rotation). (a,b) one evaluation = one built FST (shared pool, two front ends, plus hostile chunked sinks): verify() must be Ok and the trailing 4 bytes must equal the masked CRC-32C of all preceding bytes computed by a bit-at-a-time reference. (c) one evaluation = one mutated image: for small FSTs EVERY offset x EVERY one of the 255 other byte values, plus bit flips sampled over corpus FSTs: the mutant must fail to open or fail verify() (never certified), both when opened directly, (every 4th mutant, all footer mutants) when it arrives through map_data on an FST that was opened from the good bytes and verified, and (every 16th mutant) when the bytes of an open, verified container change underneath it; 2-4 byte bursts are run for panics only. (d) for every length 36..4200 (thorough 20000) a synthetic version-3 image with random body and reference checksum must verify (all lengths mod 16, all tail lengths of the slice-by-16 path; plus images of 4, 4.06 and 5 MiB - thorough also 8 and 16 MiB - in every residue of the length mod 8) and must not verify after one bit flip; images are also verified as sub-slices at odd addresses, and for every 37th length the body is forged (GF(2) solve) so that the CORRECT stored checksum is exactly 0, 1, 0x80000000 or 0xFFFFFFFF; non-trivial = every evaluation; distinct = by construction (fst, offset, value) / fingerprint",
            assumptions: vec!["version byte 3->1/2 mutants open and report ChecksumMissing: that is 'not certified', as the statement's last clause requires".into()],
            floors,
            exhaustive: Some(true),
        },
    )
}
