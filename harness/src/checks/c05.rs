//! C05 - Set operations over ordered streams equal their mathematical definitions.
use crate::build::{self, Front, VecMapStream, VecSetStream, VecStream};
use crate::ctx::{finish, guard, Ctx, Ev, Spec};
use crate::gen::{self, Kv};
use crate::json::J;
use crate::rng::Rng;
use fst::automaton::{AlwaysMatch, Automaton, Str};
use fst::raw::{self, Fst};
use fst::{map, set, Map, Set, Streamer};
use std::collections::BTreeMap;

#[derive(Clone, Copy, Debug, PartialEq)]
enum Kind {
    Whole,
    RangeAll,
    RangeCut,
    SearchAll,
    SearchCut,
    UserVec,
}
const KINDS: [Kind; 6] = [Kind::Whole, Kind::RangeAll, Kind::RangeCut, Kind::SearchAll, Kind::SearchCut, Kind::UserVec];
const OPS: [&str; 4] = ["union", "intersection", "difference", "symmetric_difference"];

struct Input {
    /// what the stream yields
    model: Kv,
    /// bytes of an FST holding exactly `model`
    exact: Vec<u8>,
    /// bytes of an FST holding `model` + `extra`
    plus: Vec<u8>,
    /// a key greater than every key of `model`, cut away again by RangeCut / SearchCut
    extra: Vec<u8>,
    extra_utf8: bool,
}

fn mk_input(model: Kv) -> Input {
    let exact = build::build(Front::MapInsert, &model).expect("build");
    let mut p = model.clone();
    let extra: Vec<u8> = match model.last() {
        None => b"zz".to_vec(),
        Some((k, _)) => {
            let mut e = k.clone();
            e.push(b'z');
            e
        }
    };
    p.push((extra.clone(), 9));
    let plus = build::build(Front::MapInsert, &p).expect("build");
    let extra_utf8 = std::str::from_utf8(&extra).is_ok();
    Input { model, exact, plus, extra, extra_utf8 }
}

type Res = Vec<(Vec<u8>, Vec<(usize, u64)>)>;

thread_local! {
    static EXTEND_ON_NONEMPTY: std::cell::Cell<u64> = std::cell::Cell::new(0);
}
fn ev_note_extend() {
    EXTEND_ON_NONEMPTY.with(|c| c.set(c.get() + 1));
}

fn oracle(op: &str, ins: &[(&Input, Kind)]) -> Res {
    let mut all: BTreeMap<Vec<u8>, Vec<(usize, u64)>> = BTreeMap::new();
    for (i, (inp, _)) in ins.iter().enumerate() {
        for (k, v) in &inp.model {
            all.entry(k.clone()).or_default().push((i, *v));
        }
    }
    let n = ins.len();
    all.into_iter()
        .filter_map(|(k, l)| match op {
            "union" => Some((k, l)),
            "intersection" => {
                if l.len() == n {
                    Some((k, l))
                } else {
                    None
                }
            }
            "symmetric_difference" => {
                if l.len() % 2 == 1 {
                    Some((k, l))
                } else {
                    None
                }
            }
            _ => {
                if l.len() == 1 && l[0].0 == 0 {
                    Some((k, l))
                } else {
                    None
                }
            }
        })
        .collect()
}

macro_rules! drain_indexed {
    ($s:expr) => {{
        let mut s = $s;
        let mut out: Res = vec![];
        while let Some((k, ivs)) = s.next() {
            let mut l: Vec<(usize, u64)> = ivs.iter().map(|iv| (iv.index, iv.value)).collect();
            l.sort();
            out.push((k.to_vec(), l));
        }
        // polling again after the end must not panic (the result is not judged)
        let _ = s.next();
        out
    }};
}

fn run_raw(op: &str, ins: &[(&Input, Kind)], how: usize) -> Res {
    let fsts: Vec<Fst<&[u8]>> = ins.iter().map(|(i, k)| Fst::new(if *k == Kind::RangeCut || (*k == Kind::SearchCut && i.extra_utf8) { &i.plus[..] } else { &i.exact[..] }).unwrap()).collect();
    let mut b = raw::OpBuilder::new();
    if how % 3 == 2 && ins.iter().all(|(_, k)| *k == Kind::Whole) {
        b = fsts.iter().collect::<raw::OpBuilder>();
    } else if (how / 5) % 2 == 1 && ins.len() >= 2 && ins.iter().all(|(_, k)| *k == Kind::Whole) {
        // fst.op() already holds stream 0; the rest arrives through Extend in two portions
        ev_note_extend();
        b = fsts[0].op();
        let mid = 1 + (how / 5) % (ins.len() - 1).max(1);
        b.extend(fsts[1..mid.min(fsts.len())].iter());
        b.extend(fsts[mid.min(fsts.len())..].iter());
    } else {
        for (j, (inp, kind)) in ins.iter().enumerate() {
            let f = &fsts[j];
            match kind {
                Kind::Whole => {
                    if how % 3 == 0 {
                        b.push(f)
                    } else {
                        b = b.add(f)
                    }
                }
                Kind::RangeAll => b.push(f.range().ge("")),
                Kind::RangeCut => b.push(f.range().lt(&inp.extra)),
                Kind::SearchAll => b.push(f.search(AlwaysMatch)),
                Kind::SearchCut if inp.extra_utf8 => b.push(f.search(Str::new(std::str::from_utf8(&inp.extra).unwrap()).complement())),
                Kind::SearchCut => b.push(f.search(AlwaysMatch)),
                Kind::UserVec => b.push(VecStream::new(&inp.model)),
            }
        }
    }
    match op {
        "union" => drain_indexed!(b.union()),
        "intersection" => drain_indexed!(b.intersection()),
        "difference" => drain_indexed!(b.difference()),
        _ => drain_indexed!(b.symmetric_difference()),
    }
}

fn run_map(op: &str, ins: &[(&Input, Kind)], how: usize) -> Res {
    let maps: Vec<Map<&[u8]>> = ins.iter().map(|(i, k)| Map::new(if *k == Kind::RangeCut || (*k == Kind::SearchCut && i.extra_utf8) { &i.plus[..] } else { &i.exact[..] }).unwrap()).collect();
    let mut b = map::OpBuilder::new();
    if how % 3 == 2 && ins.iter().all(|(_, k)| *k == Kind::Whole) {
        b = maps.iter().collect::<map::OpBuilder>();
    } else if how % 3 == 1 && ins.iter().all(|(_, k)| *k == Kind::Whole) {
        // Extend on a builder that already holds streams
        let mid = (how / 3) % (maps.len() + 1);
        if mid > 0 && mid < maps.len() {
            ev_note_extend();
        }
        for m in &maps[..mid] {
            b.push(m);
        }
        b.extend(maps[mid..].iter());
    } else {
        for (j, (inp, kind)) in ins.iter().enumerate() {
            let m = &maps[j];
            match kind {
                Kind::Whole => b.push(m),
                Kind::RangeAll => b.push(m.range().ge("")),
                Kind::RangeCut => b = b.add(m.range().lt(&inp.extra)),
                Kind::SearchAll => b.push(m.search(AlwaysMatch)),
                Kind::SearchCut if inp.extra_utf8 => b.push(m.search(Str::new(std::str::from_utf8(&inp.extra).unwrap()).complement())),
                Kind::SearchCut => b.push(m.search(AlwaysMatch)),
                Kind::UserVec => b.push(VecMapStream(VecStream::new(&inp.model))),
            }
        }
    }
    match op {
        "union" => drain_indexed!(b.union()),
        "intersection" => drain_indexed!(b.intersection()),
        "difference" => drain_indexed!(b.difference()),
        _ => drain_indexed!(b.symmetric_difference()),
    }
}

fn run_set(op: &str, ins: &[(&Input, Kind)], how: usize) -> Vec<Vec<u8>> {
    let sets: Vec<Set<&[u8]>> = ins.iter().map(|(i, k)| Set::new(if *k == Kind::RangeCut || (*k == Kind::SearchCut && i.extra_utf8) { &i.plus[..] } else { &i.exact[..] }).unwrap()).collect();
    let mut b = set::OpBuilder::new();
    if how % 3 == 2 && ins.iter().all(|(_, k)| *k == Kind::Whole) {
        b = sets.iter().collect::<set::OpBuilder>();
    } else if how % 3 == 1 && ins.len() >= 2 && ins.iter().all(|(_, k)| *k == Kind::Whole) {
        ev_note_extend();
        b = sets[0].op();
        b.extend(sets[1..].iter());
    } else {
        for (j, (inp, kind)) in ins.iter().enumerate() {
            let s = &sets[j];
            match kind {
                Kind::Whole => b.push(s),
                Kind::RangeAll => b.push(s.range().ge("")),
                Kind::RangeCut => b = b.add(s.range().lt(&inp.extra)),
                Kind::SearchAll => b.push(s.search(AlwaysMatch)),
                Kind::SearchCut if inp.extra_utf8 => b.push(s.search(Str::new(std::str::from_utf8(&inp.extra).unwrap()).complement())),
                Kind::SearchCut => b.push(s.search(AlwaysMatch)),
                Kind::UserVec => b.push(VecSetStream(VecStream::new(&inp.model))),
            }
        }
    }
    macro_rules! drain {
        ($s:expr) => {{
            let mut s = $s;
            let mut out = vec![];
            while let Some(k) = s.next() {
                out.push(k.to_vec());
            }
            let _ = s.next();
            out
        }};
    }
    match op {
        "union" => drain!(b.union()),
        "intersection" => drain!(b.intersection()),
        "difference" => drain!(b.difference()),
        _ => drain!(b.symmetric_difference()),
    }
}

fn show_res(r: &Res) -> String {
    format!("{:?}", r.iter().take(12).map(|(k, l)| (crate::json::show_bytes(k), l.clone())).collect::<Vec<_>>())
}

fn case_json(op: &str, api: &str, ins: &[(&Input, Kind)]) -> J {
    J::obj(vec![
        ("op", J::s(op)),
        ("api", J::s(api)),
        ("streams", J::A(ins.iter().map(|(i, k)| J::obj(vec![("kind", J::s(format!("{:?}", k))), ("yields", J::A(i.model.iter().take(12).map(|(k, v)| J::A(vec![J::bytes(k), J::U(*v)])).collect()))])).collect())),
    ])
}

fn check_tuple(ins: &[(&Input, Kind)], rot: usize, ev: &mut Ev) {
    for (oi, op) in OPS.iter().enumerate() {
        let want = oracle(op, ins);
        ev.eval(None);
        let api = (rot + oi) % 3;
        let r = guard(|| -> Result<(), String> {
            match api {
                0 => {
                    let got = run_raw(op, ins, rot);
                    if got != want {
                        return Err(format!("raw::OpBuilder::{} got {} want {}", op, show_res(&got), show_res(&want)));
                    }
                }
                1 => {
                    let got = run_map(op, ins, rot);
                    if got != want {
                        return Err(format!("map::OpBuilder::{} got {} want {}", op, show_res(&got), show_res(&want)));
                    }
                }
                _ => {
                    let got = run_set(op, ins, rot);
                    let wk: Vec<Vec<u8>> = want.iter().map(|(k, _)| k.clone()).collect();
                    if got != wk {
                        return Err(format!("set::OpBuilder::{} got {:?} want {:?}", op, got.iter().map(|k| crate::json::show_bytes(k)).collect::<Vec<_>>(), wk.iter().map(|k| crate::json::show_bytes(k)).collect::<Vec<_>>()));
                    }
                }
            }
            Ok(())
        });
        match r {
            Err(p) => ev.violate("setop-panic", format!("{} over {} streams panicked: {}", op, ins.len(), p), case_json(op, "?", ins)),
            Ok(Err(e)) => ev.violate("setop-mismatch", e, case_json(op, ["raw", "map", "set"][api], ins)),
            Ok(Ok(())) => {}
        }
    }
    // coverage classes from the inputs
    let k = ins.len();
    ev.count(&format!("cov:k={}", k.min(13)));
    if ins.iter().any(|(i, _)| i.model.is_empty()) {
        ev.count("cov:has-empty-stream");
    }
    if ins.iter().any(|(i, _)| i.model.first().map(|e| e.0.is_empty()).unwrap_or(false)) {
        ev.count("cov:has-empty-key");
    }
    let mut eqv = false;
    let mut diffv = false;
    let mut ident = false;
    for a in 0..k {
        for b in a + 1..k {
            if std::ptr::eq(ins[a].0, ins[b].0) {
                ident = true;
            }
            for (ka, va) in &ins[a].0.model {
                if let Some((_, vb)) = ins[b].0.model.iter().find(|(kb, _)| kb == ka) {
                    if va == vb {
                        eqv = true
                    } else {
                        diffv = true
                    }
                }
            }
        }
    }
    if eqv {
        ev.count("cov:equal-key-equal-values");
    }
    if diffv {
        ev.count("cov:equal-key-differing-values");
    }
    if ident {
        ev.count("cov:same-fst-twice");
    }
    for (_, kind) in ins {
        ev.count(&format!("cov:kind={:?}", kind));
    }
}

fn relations(univ: &[Vec<u8>], ev: &mut Ev) {
    let n = 1u64 << univ.len();
    let sets: Vec<Kv> = (0..n).map(|m| gen::subset(univ, m).into_iter().map(|k| (k, 0)).collect()).collect();
    let bytes: Vec<Vec<u8>> = sets.iter().map(|kv| build::build(Front::SetInsert, kv).expect("build")).collect();
    // the same key sets as maps, with values that differ between the two sides of a pair (self: 100+i, other: i or 7)
    let hi: Vec<Kv> = sets.iter().map(|kv| kv.iter().enumerate().map(|(i, (k, _))| (k.clone(), 100 + i as u64)).collect()).collect();
    let lo: Vec<Kv> = sets.iter().map(|kv| kv.iter().enumerate().map(|(i, (k, _))| (k.clone(), if i % 2 == 0 { i as u64 } else { 7 })).collect()).collect();
    let hib: Vec<Vec<u8>> = hi.iter().map(|kv| build::build(Front::MapInsert, kv).expect("build")).collect();
    let lob: Vec<Vec<u8>> = lo.iter().map(|kv| build::build(Front::MapInsert, kv).expect("build")).collect();
    for a in 0..n as usize {
        for b in 0..n as usize {
            let sa: std::collections::BTreeSet<&Vec<u8>> = sets[a].iter().map(|(k, _)| k).collect();
            let sb: std::collections::BTreeSet<&Vec<u8>> = sets[b].iter().map(|(k, _)| k).collect();
            let want = (sa.is_disjoint(&sb), sa.is_subset(&sb), sa.is_superset(&sb));
            ev.eval(Some(crate::rng::fnv_u64(0x5e7, (a * 1000 + b) as u64)));
            ev.count("relation-pairs");
            let r = guard(|| {
                let x = Set::new(&bytes[a][..]).unwrap();
                let y = Set::new(&bytes[b][..]).unwrap();
                let fx = Fst::new(&bytes[a][..]).unwrap();
                let fy = Fst::new(&bytes[b][..]).unwrap();
                let g1 = (x.is_disjoint(&y), x.is_subset(&y), x.is_superset(&y));
                let g2 = (x.is_disjoint(VecSetStream(VecStream::new(&sets[b]))), x.is_subset(VecSetStream(VecStream::new(&sets[b]))), x.is_superset(y.range().ge("")));
                let g3 = (fx.is_disjoint(&fy), fx.is_subset(&fy), fx.is_superset(VecStream::new(&sets[b])));
                // raw FSTs that carry values (maps): the relations are about keys only
                let (hx, ly) = (Fst::new(&hib[a][..]).unwrap(), Fst::new(&lob[b][..]).unwrap());
                let (lx, hy) = (Fst::new(&lob[a][..]).unwrap(), Fst::new(&hib[b][..]).unwrap());
                let g4 = (hx.is_disjoint(&ly), hx.is_subset(&ly), hx.is_superset(&ly));
                let g5 = (lx.is_disjoint(&hy), lx.is_subset(VecStream::new(&hi[b])), lx.is_superset(&hy));
                let g6 = (hx.is_disjoint(VecStream::new(&lo[b])), hx.is_subset(&fy), fx.is_superset(&ly));
                (g1, g2, g3, g4, g5, g6)
            });
            match r {
                Err(p) => ev.violate("setop-panic", format!("is_disjoint/is_subset/is_superset panicked: {}", p), J::Null),
                Ok((g1, g2, g3, g4, g5, g6)) => {
                    for (name, g) in [("Set vs &Set", g1), ("Set vs user stream / range", g2), ("raw::Fst", g3), ("raw::Fst of a map with larger values vs raw::Fst of a map with smaller values", g4), ("raw::Fst of a map with smaller values vs map / user stream with larger values", g5), ("raw::Fst of a map vs raw::Fst of a set and the other way round", g6)].iter() {
                        if *g != want {
                            ev.violate(
                                "relation-mismatch",
                                format!("{}: (is_disjoint,is_subset,is_superset) = {:?}, set theory says {:?}", name, g, want),
                                J::obj(vec![("self", J::A(sets[a].iter().map(|(k, _)| J::bytes(k)).collect())), ("other", J::A(sets[b].iter().map(|(k, _)| J::bytes(k)).collect()))]),
                            );
                        }
                    }
                }
            }
        }
    }
}

pub fn run(ctx: &Ctx) -> i32 {
    let quick = ctx.quick();
    let univ: Vec<Vec<u8>> = if quick { vec![b"".to_vec(), b"a".to_vec(), b"ab".to_vec(), b"b".to_vec()] } else { vec![b"".to_vec(), b"a".to_vec(), b"ab".to_vec(), b"b".to_vec(), b"ba".to_vec(), vec![0xff]] };
    let nsub = 1usize << univ.len();
    let vals = [0u64, 1, 1, 5];
    let ev = ctx.par(|shard, n, ev| {
        // inputs[subset][value variant]
        let inputs: Vec<Vec<Input>> = (0..nsub)
            .map(|m| (0..4).map(|var| mk_input(gen::subset(&univ, m as u64).into_iter().enumerate().map(|(i, k)| (k, vals[(i + var + m) % 4])).collect())).collect())
            .collect();
        let mut g = 0usize;
        let kmax_full = if quick { 5 } else { 3 };
        for k in 1..=kmax_full {
            let total = nsub.pow(k as u32);
            for t in 0..total {
                g += 1;
                if g % n != shard {
                    continue;
                }
                let mut x = t;
                let mut ins: Vec<(&Input, Kind)> = vec![];
                for j in 0..k {
                    let m = x % nsub;
                    x /= nsub;
                    let kind = KINDS[(t / 7 + j * 5 + t % 6) % KINDS.len()];
                    // every 11th tuple uses the very same FST for streams 0 and 1
                    let var = if t % 11 == 0 && j == 1 { (ins[0].0 as *const Input as usize - &inputs[0][0] as *const Input as usize) % 4 } else { (j + t) % 4 };
                    let _ = var;
                    ins.push((&inputs[m][(j + t) % 4], if t % 5 == 0 { Kind::Whole } else { kind }));
                }
                if t % 11 == 0 && k >= 2 {
                    let first = ins[0].0;
                    ins[1].0 = first;
                }
                let before = ev.evaluations;
                check_tuple(&ins, t, ev);
                ev.distinct_extra += ev.evaluations - before;
                if t % 20011 == 5 {
                    ev.sample(case_json("all four ops", "rotating raw/map/set", &ins));
                }
            }
        }
        // the same universe behind a 70-byte common prefix (longer than the 64-byte slot buffers), all k-tuples for k <= 3
        {
            let prefix = vec![b'P'; 70];
            // ... plus two SHORT keys that sort after all the long ones: a stream then yields a key longer than 64 bytes followed by a
            // short one (whatever a slot keeps from the long key must not leak into the short one)
            let luniv: Vec<Vec<u8>> = vec![prefix.clone(), [&prefix[..], b"a"].concat(), [&prefix[..], b"ab"].concat(), [&prefix[..], b"b"].concat(), b"a".to_vec(), b"ab".to_vec()];
            let lnsub = 1usize << luniv.len();
            let linputs: Vec<Vec<Input>> = (0..lnsub)
                .map(|m| (0..4).map(|var| mk_input(gen::subset(&luniv, m as u64).into_iter().enumerate().map(|(i, k)| (k, vals[(i + var + m) % 4])).collect())).collect())
                .collect();
            let mut g = 0usize;
            for k in 1..=3usize {
                for t in 0..lnsub.pow(k as u32) {
                    g += 1;
                    // k = 3 is sampled (64^3 tuples)
                    if g % n != shard || (k == 3 && crate::rng::mix(t as u64) % 13 != 0) {
                        continue;
                    }
                    let mut x = t;
                    let mut ins: Vec<(&Input, Kind)> = vec![];
                    for j in 0..k {
                        let m = x % lnsub;
                        x /= lnsub;
                        ins.push((&linputs[m][(j + t) % 4], KINDS[(t / 3 + j * 5) % KINDS.len()]));
                    }
                    let before = ev.evaluations;
                    check_tuple(&ins, t, ev);
                    ev.distinct_extra += ev.evaluations - before;
                    ev.count("cov:tuples-with-70-byte-common-prefix");
                }
            }
        }
        // larger k sampled
        let mut rng = Rng::new(ctx.seed, 0xC05 + shard as u64);
        let nsamp = ctx.tier.pick(20_000, 400_000) / n;
        for t in 0..nsamp {
            // up to 13 streams (the heap and the per-stream slots have no reason to care, so neither should the result)
            let k = kmax_full + 1 + rng.usize(if quick { 8 } else { 10 });
            let mut ins: Vec<(&Input, Kind)> = vec![];
            // every 4th sampled tuple consists of whole FSTs only, so that it can go through FromIterator / Extend (one Extend call
            // then delivers up to 12 streams to a builder that already holds some)
            for _ in 0..k {
                ins.push((&inputs[rng.usize(nsub)][rng.usize(4)], if t % 4 == 0 { Kind::Whole } else { *rng.pick(&KINDS) }));
            }
            if t % 4 == 0 {
                ev.count("cov:many-whole-fsts-through-extend-or-collect");
            }
            let mut h = 0xC05u64;
            for (i, kd) in &ins {
                h = crate::rng::fnv_u64(h, *i as *const Input as u64);
                h = crate::rng::fnv_u64(h, *kd as u64);
            }
            if ev.fps.insert(h) {
                ev.distinct_extra += 3; // 4 ops, the tuple fingerprint itself counts for one
            }
            check_tuple(&ins, t, ev);
        }
        // random larger maps
        let nbig = ctx.tier.pick(8, 200);
        for b in 0..nbig {
            if b % n != shard {
                continue;
            }
            let mut r = Rng::new(ctx.seed, 0xB16 + b as u64);
            let k = 2 + r.usize(5);
            let alpha = gen::alphabet(&mut r);
            let size = if quick { 1000 } else { [1000, 10_000, 100_000][b % 3] };
            let owned: Vec<Input> = (0..k)
                .map(|_| {
                    let nk = r.usize(size);
                    let keys = gen::random_keys(&mut r, nk, &alpha, 4);
                    mk_input(gen::assign(keys, 6, &mut r))
                })
                .collect();
            let ins: Vec<(&Input, Kind)> = owned.iter().map(|i| (i, *r.pick(&KINDS))).collect();
            ev.fps.insert(crate::rng::fnv_u64(0xB16, b as u64));
            check_tuple(&ins, b, ev);
            ev.count("cov:large-random-tuples");
        }
        // run-structured tuples: long stretches of keys held by ONE stream only (run lengths around 8, 16, 32, 64, 100),
        // each followed by a key shared with other streams whose values are smaller / equal / larger in every combination:
        // the shape on which an adaptive ("galloping", run-detecting, batching) implementation of an operation would switch modes
        let nrun = ctx.tier.pick(400, 6000);
        for b in 0..nrun {
            if b % n != shard {
                continue;
            }
            let mut r = Rng::new(ctx.seed, 0x6A11 + b as u64);
            let k = 2 + r.usize(4);
            let mut models: Vec<Kv> = vec![vec![]; k];
            let mut key_no = 0u32;
            let nruns = 3 + r.usize(12);
            for _ in 0..nruns {
                let owner = r.usize(k);
                let len = *r.pick(&[1usize, 2, 6, 7, 8, 9, 15, 16, 17, 31, 32, 33, 64, 100]);
                for _ in 0..len {
                    key_no += 1 + r.usize(3) as u32;
                    models[owner].push((format!("{:06}", key_no).into_bytes(), r.below(4)));
                }
                // the shared key(s) that end the run
                for _ in 0..1 + r.usize(2) {
                    key_no += 1;
                    let base = 10 + r.below(5);
                    let mut holders = 0;
                    for (j, m) in models.iter_mut().enumerate() {
                        if j == owner || r.below(3) != 0 {
                            let v = match r.below(3) {
                                0 => base - 1 - r.below(3),
                                1 => base,
                                _ => base + 1 + r.below(3),
                            };
                            m.push((format!("{:06}", key_no).into_bytes(), v));
                            holders += 1;
                        }
                    }
                    if holders >= 2 {
                        ev.count("cov:run-ended-by-shared-key");
                    }
                }
            }
            let owned: Vec<Input> = models.into_iter().map(mk_input).collect();
            let ins: Vec<(&Input, Kind)> = owned.iter().map(|i| (i, if b % 3 == 0 { *r.pick(&KINDS) } else { Kind::Whole })).collect();
            ev.fps.insert(crate::rng::fnv_u64(0x6A11, b as u64));
            ev.distinct_extra += 3;
            check_tuple(&ins, b, ev);
            ev.count("cov:run-structured-tuples");
        }
        // very many streams in one operation (more than 2^16): stream i holds a key of its own, some shared keys and a key shared
        // by all; judged through the raw OpBuilder against the definitions (union, intersection, symmetric difference, difference)
        if shard == 1 % n {
            let nstreams: usize = 66_000 + (ctx.seed as usize % 7) * 100;
            let all_key = b"zz-in-every-stream".to_vec();
            let files: Vec<Vec<u8>> = (0..nstreams)
                .map(|i| {
                    let mut b = raw::Builder::memory();
                    let own = format!("k{:08}", i).into_bytes();
                    let shared = format!("s{:05}", i % 1000).into_bytes();
                    b.insert(&own, i as u64).unwrap();
                    b.insert(&shared, 1).unwrap();
                    b.insert(&all_key, 2).unwrap();
                    b.into_inner().unwrap()
                })
                .collect();
            let r = guard(|| -> Result<(), String> {
                let fsts: Vec<Fst<&[u8]>> = files.iter().map(|b| Fst::new(&b[..]).unwrap()).collect();
                // union: every own key once with exactly its stream, shared keys with nstreams/1000 (+-1) holders, the common key with all
                let mut u = fsts.iter().collect::<raw::OpBuilder>().union();
                let (mut own, mut shared, mut common) = (0usize, 0usize, 0usize);
                let mut prev: Vec<u8> = vec![];
                while let Some((k, ivs)) = u.next() {
                    if !prev.is_empty() && k <= &prev[..] {
                        return Err(format!("union over {} streams: keys not strictly ascending at {}", nstreams, crate::json::show_bytes(k)));
                    }
                    prev = k.to_vec();
                    match k[0] {
                        b'k' => {
                            let i: usize = std::str::from_utf8(&k[1..]).unwrap().parse().unwrap();
                            if ivs.len() != 1 || ivs[0].index != i || ivs[0].value != i as u64 {
                                return Err(format!("union over {} streams: key {} carries {:?}, want exactly (index {}, value {})", nstreams, crate::json::show_bytes(k), ivs.iter().take(3).map(|v| (v.index, v.value)).collect::<Vec<_>>(), i, i));
                            }
                            own += 1;
                        }
                        b's' => {
                            let r: usize = std::str::from_utf8(&k[1..]).unwrap().parse().unwrap();
                            let want = (0..nstreams).filter(|i| i % 1000 == r).count();
                            let mut idx: Vec<usize> = ivs.iter().map(|v| v.index).collect();
                            idx.sort();
                            idx.dedup();
                            if ivs.len() != want || idx.len() != want || idx.iter().any(|i| i % 1000 != r) {
                                return Err(format!("union over {} streams: shared key {} carries {} entries ({} distinct streams), want {}", nstreams, crate::json::show_bytes(k), ivs.len(), idx.len(), want));
                            }
                            shared += 1;
                        }
                        _ => {
                            let mut idx: Vec<usize> = ivs.iter().map(|v| v.index).collect();
                            idx.sort();
                            idx.dedup();
                            if k != &all_key[..] || idx.len() != nstreams || ivs.len() != nstreams {
                                return Err(format!("union over {} streams: the key held by every stream carries {} entries from {} distinct streams", nstreams, ivs.len(), idx.len()));
                            }
                            common += 1;
                        }
                    }
                }
                if own != nstreams || shared != 1000 || common != 1 {
                    return Err(format!("union over {} streams yields {} own, {} shared, {} common keys (want {}, 1000, 1)", nstreams, own, shared, common, nstreams));
                }
                let mut x = fsts.iter().collect::<raw::OpBuilder>().intersection();
                let mut got: Vec<Vec<u8>> = vec![];
                while let Some((k, ivs)) = x.next() {
                    if ivs.len() != nstreams {
                        return Err(format!("intersection over {} streams: {} entries on its key", nstreams, ivs.len()));
                    }
                    got.push(k.to_vec());
                }
                if got != vec![all_key.clone()] {
                    return Err(format!("intersection over {} streams yields {} keys, want exactly the one key held by all", nstreams, got.len()));
                }
                // difference: stream 0 minus all others keeps only its own key
                let mut d = fsts.iter().collect::<raw::OpBuilder>().difference();
                let mut got: Vec<Vec<u8>> = vec![];
                while let Some((k, _)) = d.next() {
                    got.push(k.to_vec());
                }
                if got != vec![b"k00000000".to_vec()] {
                    return Err(format!("difference over {} streams yields {:?}", nstreams, got.iter().map(|k| crate::json::show_bytes(k)).collect::<Vec<_>>()));
                }
                // symmetric difference: own keys (1 holder) always; shared keys iff an odd number of holders; common key iff nstreams is odd
                let mut sd = fsts.iter().collect::<raw::OpBuilder>().symmetric_difference();
                let mut n_sd = 0usize;
                while let Some(_) = sd.next() {
                    n_sd += 1;
                }
                let want_sd = nstreams + (0..1000).filter(|r| (0..nstreams).filter(|i| i % 1000 == *r).count() % 2 == 1).count() + nstreams % 2;
                if n_sd != want_sd {
                    return Err(format!("symmetric difference over {} streams yields {} keys, want {}", nstreams, n_sd, want_sd));
                }
                Ok(())
            });
            ev.evals(4);
            ev.distinct_extra += 4;
            ev.count("cov:operations-over-more-than-65536-streams");
            match r {
                Ok(Ok(())) => {}
                Ok(Err(e)) => ev.violate("setop-mismatch", e, J::U(nstreams as u64)),
                Err(p) => ev.violate("setop-panic", format!("operation over {} streams panicked: {}", nstreams, p), J::U(nstreams as u64)),
            }
        }
        ev.add("cov:extend-on-non-empty-builder", EXTEND_ON_NONEMPTY.with(|c| c.get()));
        // zero streams: union / symmetric difference of nothing is empty
        if shard == 0 {
            ev.eval(Some(0));
            match guard(|| (raw::OpBuilder::new().union().next().is_none(), raw::OpBuilder::new().symmetric_difference().next().is_none(), set::OpBuilder::new().union().next().is_none())) {
                Ok((true, true, true)) => {}
                Ok(_) => ev.violate("setop-mismatch", "union/symmetric_difference over zero streams is not empty".into(), J::Null),
                Err(p) => ev.violate("setop-panic", format!("union over zero streams panicked: {}", p), J::Null),
            }
            relations(&univ, ev);
        }
    });
    finish(
        ctx,
        ev,
        Spec {
            level: "exploration",
            rule: "one evaluation = one (tuple of input streams, operation) run through raw::/map::/set::OpBuilder (add, push, from_iter, and Extend on builders that already hold streams, in rotation) and compared with the set-theoretic definition: emitted keys, ascending order, exactly-once, and per key the sorted multiset of (stream index, value) entries (difference: only (0, v0)); inputs: ALL k-tuples of subsets of a 4-string universe for k<=5 (quick) / 6-string universe for k<=3 (thorough), all k<=3 tuples again behind a 70-byte common key prefix, sampled k up to 13, one operation set over more than 66000 streams (own, shared and common keys), stream kinds rotated over {whole FST, range() stream, range cutting an extra key, search(AlwaysMatch), search(Complement(Str)) cutting an extra key, user Streamer over a Vec}, the same FST twice, values chosen so equal keys carry equal and differing values, run-structured tuples (stretches of 1..100 keys held by one stream only, ended by keys shared with other streams under smaller/equal/larger values), random maps up to 10^3 (quick) / 10^5 (thorough) keys; plus is_disjoint/is_subset/is_superset on all ordered pairs of subsets with FST, range and user-stream arguments, through set::Set and through raw::Fst over sets and over maps whose values differ between the two sides (larger on either side); non-trivial = every (tuple, op); distinct = by construction for the exhaustive part, by fingerprint for the sampled part",
            assumptions: vec!["order among IndexedValue entries of one key is unspecified (heap order) and therefore compared as a sorted multiset".into(), "zero-stream difference/intersection are outside the statement and not judged".into()],
            floors: vec![
                ("cov:has-empty-stream", 100),
                ("cov:has-empty-key", 100),
                ("cov:equal-key-equal-values", 100),
                ("cov:equal-key-differing-values", 100),
                ("cov:same-fst-twice", 100),
                ("cov:kind=UserVec", 100),
                ("cov:kind=RangeCut", 100),
                ("cov:kind=SearchCut", 100),
                ("relation-pairs", 256),
                ("cov:extend-on-non-empty-builder", 100),
                ("cov:tuples-with-70-byte-common-prefix", 1000),
                ("cov:k=9", 100),
                ("cov:k=12", 100),
                ("cov:operations-over-more-than-65536-streams", 1),
                ("cov:many-whole-fsts-through-extend-or-collect", 1000),
                ("cov:run-structured-tuples", 400),
                ("cov:run-ended-by-shared-key", 1000),
            ],
            exhaustive: Some(false),
        },
    )
}
