//! C18 - Built-in automata and combinators match their specs with sound pruning hints.
//! Oracle: reference DFA of the expression built by textbook constructions, exact can/always sets by reachability.
use crate::autspec::{RefDfa, SpecE};
use crate::ctx::{finish, guard, Ctx, Ev, Spec};
use crate::dfa::Dfa;
use crate::json::J;
use crate::rng::Rng;
use fst::Automaton;

fn top(e: &SpecE) -> &'static str {
    match e {
        SpecE::Str(_) => "Str",
        SpecE::Subseq(_) => "Subsequence",
        SpecE::Always => "AlwaysMatch",
        SpecE::Dfa(_) => "component-dfa",
        SpecE::Lev(..) => "Levenshtein",
        SpecE::StartsWith(_) => "StartsWith",
        SpecE::Union(..) => "Union",
        SpecE::Inter(..) => "Intersection",
        SpecE::Compl(_) => "Complement",
        SpecE::Ref(_) => "Ref",
    }
}

fn driving_strings(r: &RefDfa, budget: usize) -> Vec<Vec<u8>> {
    let k = r.alphabet.len();
    // longest L with sum_{i<=L} k^i <= budget (at least 2, at most 7)
    let mut l = 0;
    let mut total = 1usize;
    let mut pw = 1usize;
    while l < 7 {
        pw = pw.saturating_mul(k);
        if total + pw > budget && l >= 2 {
            break;
        }
        total += pw;
        l += 1;
    }
    let mut out: Vec<Vec<u8>> = vec![vec![]];
    let mut layer: Vec<Vec<u8>> = vec![vec![]];
    for _ in 0..l {
        let mut next = Vec::with_capacity(layer.len() * k);
        for s in &layer {
            for &a in &r.alphabet {
                let mut t = s.clone();
                t.push(a);
                next.push(t);
            }
        }
        out.extend(next.iter().cloned());
        layer = next;
    }
    // a shortest representative of every reference state, each also extended by every string of length <= 2
    for rep in r.representatives() {
        out.push(rep.clone());
        for &a in &r.alphabet {
            let mut t = rep.clone();
            t.push(a);
            out.push(t.clone());
            for &b in &r.alphabet {
                let mut u = t.clone();
                u.push(b);
                out.push(u);
            }
        }
    }
    // deep reference automata (long patterns, products): guided random walks that mostly make progress towards deeper states but
    // keep inserting other symbols on the way, observed at many prefixes - a state reached "the wrong way" is only told apart from
    // the right one by what happens many steps later
    let n = r.trans.len();
    if n > 8 {
        // breadth-first depth of every state
        let mut depth = vec![usize::MAX; n];
        depth[0] = 0;
        let mut queue = std::collections::VecDeque::from(vec![0usize]);
        while let Some(s) = queue.pop_front() {
            for &t in &r.trans[s] {
                if depth[t] == usize::MAX {
                    depth[t] = depth[s] + 1;
                    queue.push_back(t);
                }
            }
        }
        // two-point perturbations: walk to an early state, insert a symbol, walk on to a late state, insert a symbol, walk on to
        // the deepest state. (An implementation whose state runs ahead of - or behind - the specification after the first
        // insertion is only told apart by the second.)
        {
            let path = |from: usize, to: usize| -> Option<Vec<usize>> {
                // shortest symbol sequence from `from` to `to`
                let mut prev: Vec<Option<(usize, usize)>> = vec![None; n];
                let mut seen = vec![false; n];
                seen[from] = true;
                let mut q = std::collections::VecDeque::from(vec![from]);
                while let Some(x) = q.pop_front() {
                    if x == to {
                        break;
                    }
                    for a in 0..k {
                        let y = r.trans[x][a];
                        if !seen[y] {
                            seen[y] = true;
                            prev[y] = Some((x, a));
                            q.push_back(y);
                        }
                    }
                }
                if !seen[to] {
                    return None;
                }
                let mut syms = vec![];
                let mut x = to;
                while x != from {
                    let (px, a) = prev[x]?;
                    syms.push(a);
                    x = px;
                }
                syms.reverse();
                Some(syms)
            };
            let by_depth: Vec<usize> = {
                let mut v: Vec<usize> = (0..n).filter(|&s| depth[s] != usize::MAX).collect();
                v.sort_by_key(|&s| depth[s]);
                v
            };
            let deepest = *by_depth.last().unwrap();
            let early: Vec<usize> = by_depth.iter().cloned().take(3).chain(by_depth.get(by_depth.len() / 2).cloned()).collect();
            let late: Vec<usize> = by_depth.iter().cloned().rev().take(4).collect();
            for &i in &early {
                for a in 0..k {
                    for &j in &late {
                        for b2 in 0..k {
                            let mut w: Vec<usize> = match path(0, i) {
                                Some(p) => p,
                                None => continue,
                            };
                            w.push(a);
                            let s1 = r.trans[i][a];
                            match path(s1, j) {
                                Some(p) => w.extend(p),
                                None => continue,
                            }
                            w.push(b2);
                            let s2 = r.trans[j][b2];
                            let cut = w.len();
                            if let Some(p) = path(s2, deepest) {
                                w.extend(p);
                            }
                            let bytes: Vec<u8> = w.iter().map(|&x| r.alphabet[x]).collect();
                            out.push(bytes[..cut].to_vec());
                            out.push(bytes);
                        }
                    }
                }
            }
        }
        let mut rng = Rng::new(n as u64 * 31 + k as u64, 0x18_aa);
        for w in 0..14 {
            let mut s = 0usize;
            let mut cur: Vec<u8> = vec![];
            let maxlen = 3 * n + 6;
            let detour = [3u64, 10, 25][w % 3];
            for step in 0..maxlen {
                let forward: Vec<usize> = (0..k).filter(|&a| depth[r.trans[s][a]] > depth[s] && depth[r.trans[s][a]] != usize::MAX).collect();
                let a = if !forward.is_empty() && rng.below(100) >= detour { forward[rng.usize(forward.len())] } else { rng.usize(k) };
                cur.push(r.alphabet[a]);
                s = r.trans[s][a];
                if step % 5 == 4 || step + 1 == maxlen || step < 3 {
                    out.push(cur.clone());
                }
            }
        }
    }
    out
}

pub fn check_expr(e: &SpecE, budget: usize, ev: &mut Ev) {
    let alphabet = e.alphabet();
    let r = e.ref_dfa(&alphabet);
    let can = r.exact_can();
    let alw = r.exact_always();
    let imp = e.to_expr();
    let t = top(e);
    let mut visited = vec![false; r.trans.len()];
    let mut bad = 0;
    let mut strings = driving_strings(&r, budget);
    // "every other byte behaves alike" is what correct code does, not something to assume of the code under test:
    // short strings containing the representative are replayed with other unused byte values (the reference maps all
    // of them to the same symbol class)
    {
        let other = *alphabet.last().unwrap();
        let alts: Vec<u8> = [0x00u8, 0x01, 0x20, 0x7f, 0x80, 0xc3, 0xfe, 0xff].iter().cloned().filter(|b| !alphabet.contains(b)).collect();
        let mut extra = vec![];
        for w in strings.iter().filter(|w| w.len() <= 4 && w.contains(&other)) {
            for (ai, &a) in alts.iter().enumerate() {
                // replace all, or only the last, occurrence
                let mut v: Vec<u8> = w.iter().map(|&b| if b == other { a } else { b }).collect();
                extra.push(v.clone());
                if ai % 2 == 0 {
                    if let Some(p) = w.iter().rposition(|&b| b == other) {
                        v = w.clone();
                        v[p] = a;
                        extra.push(v);
                    }
                }
            }
        }
        strings.extend(extra);
    }
    for w in &strings {
        let rs = r.run(w);
        visited[rs] = true;
        let mut st = imp.start();
        for &b in w {
            st = imp.accept(&st, b);
        }
        ev.eval(None);
        let (m, c, a) = (imp.is_match(&st), imp.can_match(&st), imp.will_always_match(&st));
        // the three independent definitions of the language must agree, or the oracle itself is broken
        assert_eq!(e.matches(w), r.accept[rs], "harness oracle inconsistency for {} on {:?}", e.show(), w);
        let descr = || J::obj(vec![("expression", J::s(e.show())), ("input", J::bytes(w)), ("input_hex", J::s(crate::json::hex(w)))]);
        if m != r.accept[rs] {
            if bad < 2 {
                ev.violate("language", format!("{}: is_match after {} is {}, the specification says {}", e.show(), crate::json::show_bytes(w), m, r.accept[rs]), descr());
            }
            bad += 1;
        }
        if !c && can[rs] {
            if bad < 2 {
                ev.violate("can-match-unsound", format!("{}: can_match is false after {} although a continuation still matches", e.show(), crate::json::show_bytes(w)), descr());
            }
            bad += 1;
        }
        if a && !alw[rs] {
            if bad < 2 {
                ev.violate("will-always-match-unsound", format!("{}: will_always_match is true after {} although some continuation does not match", e.show(), crate::json::show_bytes(w)), descr());
            }
            bad += 1;
        }
        if !can[rs] {
            ev.count(&format!("dead-states-exercised:{}", t));
            if !c {
                ev.count(&format!("dead-states-pruned-by-impl:{}", t));
            }
        }
        if alw[rs] {
            ev.count(&format!("always-states-exercised:{}", t));
            if a {
                ev.count(&format!("always-states-reported-by-impl:{}", t));
            }
        }
    }
    ev.add("ref-states-total", r.trans.len() as u64);
    ev.add("ref-states-visited", visited.iter().filter(|v| **v).count() as u64);
    ev.count(&format!("expressions:{}", t));
    ev.count(&format!("expressions:depth={}", e.depth()));
}

fn b(e: &SpecE) -> Box<SpecE> {
    Box::new(e.clone())
}
fn unary(k: usize, e: &SpecE) -> SpecE {
    match k % 3 {
        0 => SpecE::StartsWith(b(e)),
        1 => SpecE::Compl(b(e)),
        _ => SpecE::Ref(b(e)),
    }
}
fn binary(k: usize, x: &SpecE, y: &SpecE) -> SpecE {
    if k % 2 == 0 {
        SpecE::Union(b(x), b(y))
    } else {
        SpecE::Inter(b(x), b(y))
    }
}

pub fn run(ctx: &Ctx) -> i32 {
    // leaves
    let mut fixed: Vec<SpecE> = vec![SpecE::Always];
    for p in ["", "a", "ab", "aba", "é", "bb"].iter() {
        fixed.push(SpecE::Str(p.to_string()));
        fixed.push(SpecE::Subseq(p.to_string()));
    }
    let mut dfa_exact: Vec<SpecE> = vec![];
    let mut dfa_variants: Vec<SpecE> = vec![];
    for n in 1..=2 {
        for d in Dfa::enumerate(n, b"ab") {
            dfa_exact.push(SpecE::Dfa(d.clone()));
            for v in d.all_hint_variants(16) {
                dfa_variants.push(SpecE::Dfa(v));
            }
        }
    }
    let mut dfa3: Vec<SpecE> = vec![];
    {
        let all3 = Dfa::enumerate(3, b"ab");
        let step = ctx.tier.pick(41, 1);
        for (i, d) in all3.into_iter().enumerate() {
            if i % step == (ctx.seed as usize) % step {
                let mut r = Rng::new(ctx.seed, 0x18_3 + i as u64);
                dfa3.push(SpecE::Dfa(d.weaken_randomly(&mut r)));
            }
        }
    }
    let mut leaves: Vec<SpecE> = fixed.clone();
    leaves.extend(dfa_variants.iter().cloned());
    leaves.extend(dfa3.iter().cloned());
    let nleaves = leaves.len();
    // expression list (deterministic), sharded by index
    let mut exprs: Vec<SpecE> = leaves.clone();
    for l in &leaves {
        for k in 0..3 {
            exprs.push(unary(k, l));
        }
    }
    // binary: fixed x everything (both orders, both ops); component DFAs pairwise (complete in thorough, sampled in quick)
    for f in &fixed {
        for l in &leaves {
            for k in 0..2 {
                exprs.push(binary(k, f, l));
                exprs.push(binary(k, l, f));
            }
        }
    }
    {
        let mut r = Rng::new(ctx.seed, 0x18_b);
        let pairs = ctx.tier.pick(18_000, 0);
        if pairs == 0 {
            for x in &dfa_variants {
                for y in &dfa_variants {
                    for k in 0..2 {
                        exprs.push(binary(k, x, y));
                    }
                }
            }
        } else {
            for i in 0..pairs {
                let x = r.pick(&leaves).clone();
                let y = r.pick(&leaves).clone();
                exprs.push(binary(i, &x, &y));
            }
        }
    }
    // depth 2: unary(unary(leaf)) complete; unary(binary), binary(unary, leaf), binary(binary, leaf) sampled
    for l in &leaves {
        for k in 0..9 {
            exprs.push(unary(k / 3, &unary(k % 3, l)));
        }
    }
    {
        let mut r = Rng::new(ctx.seed, 0x18_d);
        for i in 0..ctx.tier.pick(14_000, 300_000) {
            let x = r.pick(&leaves).clone();
            let y = r.pick(&leaves).clone();
            let z = r.pick(&leaves).clone();
            let e = match i % 6 {
                0 => unary(i / 6, &binary(i / 18, &x, &y)),
                1 => binary(i / 6, &unary(i / 12, &x), &y),
                2 => binary(i / 6, &x, &unary(i / 12, &y)),
                3 => binary(i / 6, &binary(i / 12, &x, &y), &z),
                4 => binary(i / 6, &unary(i / 12, &x), &unary(i / 36, &y)),
                // depth 3
                _ => unary(i / 6, &binary(i / 18, &unary(i / 36, &x), &binary(i / 72, &y, &z))),
            };
            exprs.push(e);
        }
    }
    // long patterns (lengths around 64, 128 and 256: the sizes of machine words, bitmaps and small tables), alone, under the unary
    // combinators and combined with a short leaf
    {
        let mut long: Vec<SpecE> = vec![];
        for &n in [31usize, 32, 33, 63, 64, 65, 66, 127, 128, 129, 255, 256, 257].iter() {
            let shapes: Vec<String> = vec![
                format!("{}b", "a".repeat(n - 1)),
                "ab".repeat(n / 2 + 1)[..n].to_string(),
                (0..n).map(|i| ['a', 'b', 'c'][(i * i + i / 7) % 3]).collect(),
                format!("b{}", "a".repeat(n - 1)),
            ];
            for p in shapes {
                long.push(SpecE::Subseq(p.clone()));
                long.push(SpecE::Str(p));
            }
        }
        for l in &long {
            exprs.push(l.clone());
            for k in 0..3 {
                exprs.push(unary(k, l));
            }
            exprs.push(binary(0, l, &SpecE::Subseq("ab".to_string())));
            exprs.push(binary(1, &SpecE::Str("a".to_string()), l));
        }
    }
    // patterns are byte strings taken as they are: characters that a "tidying" constructor might drop, trim, fold or normalise
    // (byte order mark / zero-width characters first, last and in the middle; blanks, tabs and line ends at either end; NUL; upper
    // case; a precomposed letter and its decomposed spelling; U+FFFD; the largest code point)
    {
        let special = [
            "\u{feff}ab", "ab\u{feff}", "a\u{feff}b", "\u{feff}", "\u{feff}\u{feff}a", "\u{200b}a", "a\u{200b}", "\u{2060}ab", " a", "a ", " ", "\ta", "a\n", "a\r\n", "\r\na",
            "\0a", "a\0", "\0", "A", "aB", "\u{e9}", "e\u{301}", "\u{301}e", "\u{fffd}", "\u{fffd}a", "\u{10ffff}", "\u{7f}a", "\u{80}", "\u{ad}b", "\"a\"", "a\\",
        ];
        for p in special.iter() {
            for l in [SpecE::Str(p.to_string()), SpecE::Subseq(p.to_string())].iter() {
                exprs.push(l.clone());
                for k in 0..3 {
                    exprs.push(unary(k, l));
                }
                exprs.push(binary(0, l, &SpecE::Str("ab".to_string())));
                exprs.push(binary(1, &SpecE::Subseq("a".to_string()), l));
            }
        }
    }
    let nexprs = exprs.len();
    let budget = ctx.tier.pick(1500, 12_000);
    let ev = ctx.par(|shard, n, ev| {
        for (i, e) in exprs.iter().enumerate() {
            if i % n != shard {
                continue;
            }
            let before = ev.evaluations;
            if let Err(p) = guard(|| check_expr(e, budget, ev)) {
                ev.violate(if p.contains("harness oracle inconsistency") { "harness-oracle-inconsistency" } else { "automaton-panic" }, format!("{}: {}", e.show(), p), J::s(e.show()));
            }
            ev.distinct_extra += ev.evaluations - before;
            if i % 9973 == 4000 {
                ev.sample(J::obj(vec![("expression", J::s(e.show())), ("driving", J::s("all strings over the expression's symbol classes up to the budgeted length + a shortest representative of every reference state, each extended by every string of length <= 2"))]));
            }
        }
    });
    let mut ev = ev;
    // a "query buffer session": ONE String is cleared and refilled with pattern after pattern (same address, often the same
    // length), and a fresh Str / Subsequence is built over it each time - what an interactive search box does. Each automaton
    // must behave like its own pattern, whatever was in the buffer before.
    {
        let r = guard(|| -> Result<u64, String> {
            let sigma = [b'a', b'b', b'c'];
            let mut patterns: Vec<String> = vec![];
            for len in 1..=3usize {
                let mut idx = vec![0usize; len];
                loop {
                    patterns.push(idx.iter().map(|&i| sigma[i] as char).collect());
                    let mut p = len;
                    while p > 0 {
                        p -= 1;
                        idx[p] += 1;
                        if idx[p] < sigma.len() {
                            break;
                        }
                        idx[p] = 0;
                        if p == 0 {
                            p = usize::MAX;
                            break;
                        }
                    }
                    if p == usize::MAX {
                        break;
                    }
                }
            }
            for n in [64usize, 65, 130] {
                patterns.push(format!("{}b", "a".repeat(n - 1)));
                patterns.push(format!("b{}", "a".repeat(n - 1)));
                patterns.push("ab".repeat(n)[..n].to_string());
            }
            // all inputs over the alphabet up to length 5, plus the patterns themselves and their neighbours
            let mut inputs: Vec<Vec<u8>> = vec![vec![]];
            let mut layer: Vec<Vec<u8>> = vec![vec![]];
            for _ in 0..5 {
                let mut next = vec![];
                for w in &layer {
                    for &c in &sigma {
                        let mut t = w.clone();
                        t.push(c);
                        next.push(t);
                    }
                }
                inputs.extend(next.iter().cloned());
                layer = next;
            }
            for p in &patterns {
                if p.len() > 5 {
                    inputs.push(p.as_bytes().to_vec());
                    let mut t = p.as_bytes().to_vec();
                    t.insert(1, b'c');
                    inputs.push(t);
                    let mut t = p.as_bytes().to_vec();
                    t.swap(0, p.len() - 1);
                    inputs.push(t);
                }
            }
            let mut buf = String::new();
            let mut n = 0u64;
            for round in 0..2 {
                for (pi, p) in patterns.iter().enumerate() {
                    buf.clear();
                    buf.push_str(p);
                    let spec_sub = SpecE::Subseq(p.clone());
                    let spec_str = SpecE::Str(p.clone());
                    let sub = fst::automaton::Subsequence::new(&buf);
                    let st = fst::automaton::Str::new(&buf);
                    for w in inputs.iter().filter(|w| w.len() <= 5 || w.len() == p.len() || w.len() == p.len() + 1) {
                        let mut a = sub.start();
                        let mut b2 = st.start();
                        for &c in w.iter() {
                            a = sub.accept(&a, c);
                            b2 = st.accept(&b2, c);
                        }
                        n += 2;
                        if sub.is_match(&a) != spec_sub.matches(w) {
                            return Err(format!("query buffer session (round {}, pattern #{}): Subsequence({:?}) built over a re-used String says {} for {}", round, pi, p, sub.is_match(&a), crate::json::show_bytes(w)));
                        }
                        if st.is_match(&b2) != spec_str.matches(w) {
                            return Err(format!("query buffer session (round {}, pattern #{}): Str({:?}) built over a re-used String says {} for {}", round, pi, p, st.is_match(&b2), crate::json::show_bytes(w)));
                        }
                    }
                }
            }
            Ok(n)
        });
        match r {
            Ok(Ok(n)) => {
                ev.evaluations += n;
                ev.distinct_extra += n / 2;
                ev.add("history:automata-built-over-a-reused-query-buffer", n);
            }
            Ok(Err(e)) => ev.violate("language", e, J::s("query buffer session")),
            Err(p) => ev.violate("automaton-panic", format!("query buffer session: {}", p), J::s("query buffer session")),
        }
    }
    // patterns longer than 65535 bytes (positions no longer fit 16 bits), driven directly: the pattern itself, the pattern with one
    // byte removed / one foreign byte inserted / one byte replaced near the start, the middle, position 65535/65536 and the end
    {
        let r = guard(|| -> Result<u64, String> {
            let mut n = 0u64;
            fn is_subseq(p: &[u8], w: &[u8]) -> bool {
                let mut i = 0;
                for &c in w {
                    if i < p.len() && p[i] == c {
                        i += 1;
                    }
                }
                i == p.len()
            }
            for &len in [65_535usize, 65_536, 65_537, 66_000, 131_073].iter() {
                for shape in 0..3 {
                    let pat: String = match shape {
                        0 => (0..len).map(|i| ['a', 'b', 'c', 'd'][(i * i + i / 7) % 4]).collect(),
                        1 => format!("{}b", "a".repeat(len - 1)),
                        _ => (0..len).map(|i| (b'a' + (i % 23) as u8) as char).collect(),
                    };
                    let pb = pat.as_bytes();
                    let sub = fst::automaton::Subsequence::new(&pat);
                    let st = fst::automaton::Str::new(&pat);
                    let mut inputs: Vec<Vec<u8>> = vec![pb.to_vec(), [pb, pb].concat(), pb[..len - 1].to_vec()];
                    for &at in [0usize, 1, len / 2, 65_534, 65_535, 65_536, len - 1].iter() {
                        if at >= len {
                            continue;
                        }
                        let mut w = pb.to_vec();
                        w.remove(at);
                        inputs.push(w);
                        let mut w = pb.to_vec();
                        w.insert(at, b'#');
                        inputs.push(w);
                        let mut w = pb.to_vec();
                        w[at] = b'#';
                        inputs.push(w);
                    }
                    for w in &inputs {
                        let mut a = sub.start();
                        let mut b2 = st.start();
                        for &c in w.iter() {
                            a = sub.accept(&a, c);
                            b2 = st.accept(&b2, c);
                        }
                        n += 2;
                        if sub.is_match(&a) != is_subseq(pb, w) {
                            return Err(format!("Subsequence over a pattern of {} bytes (shape {}) says {} for an input of {} bytes; the definition says {}", len, shape, sub.is_match(&a), w.len(), is_subseq(pb, w)));
                        }
                        if st.is_match(&b2) != (&w[..] == pb) {
                            return Err(format!("Str over a pattern of {} bytes (shape {}) says {} for an input of {} bytes; the definition says {}", len, shape, st.is_match(&b2), w.len(), &w[..] == pb));
                        }
                    }
                }
            }
            Ok(n)
        });
        match r {
            Ok(Ok(n)) => {
                ev.evaluations += n;
                ev.distinct_extra += n;
                ev.add("patterns-longer-than-65535-bytes:inputs-driven", n);
            }
            Ok(Err(e)) => ev.violate("language", e, J::s("patterns longer than 65535 bytes")),
            Err(p) => ev.violate("automaton-panic", format!("patterns longer than 65535 bytes: {}", p), J::s("patterns longer than 65535 bytes")),
        }
    }
    ev.note("leaves", J::U(nleaves as u64));
    ev.note("expressions_total", J::U(nexprs as u64));
    let all_visited = ev.get("ref-states-total") == ev.get("ref-states-visited");
    if !all_visited {
        ev.violate("harness-oracle-inconsistency", "not every reference state was visited by the driving strings".into(), J::Null);
    }
    ev.fps.insert(1);
    ev.fps.insert(2);
    let mut floors: Vec<(String, u64)> = vec![];
    for t in ["StartsWith", "Union", "Intersection", "Complement", "Ref"].iter() {
        floors.push((format!("dead-states-exercised:{}", t), 100));
        floors.push((format!("always-states-exercised:{}", t), 100));
        floors.push((format!("dead-states-pruned-by-impl:{}", t), 1));
        floors.push((format!("always-states-reported-by-impl:{}", t), 1));
    }
    for t in ["Str", "Subsequence", "AlwaysMatch"].iter() {
        floors.push((format!("expressions:{}", t), 1));
    }
    let floors_ref: Vec<(&str, u64)> = floors.iter().map(|(a, b)| (a.as_str(), *b)).collect();
    finish(
        ctx,
        ev,
        Spec {
            level: "exploration",
            rule: "one evaluation = one (expression, input string): the REAL fst::automaton value (Str, Subsequence, AlwaysMatch, explicit component DFAs with every sound hint assignment, composed through StartsWith/Union/Intersection/Complement/&A) is driven byte by byte and compared with a reference DFA built by textbook constructions: is_match == membership; can_match false only in states from which no accepting state is reachable; will_always_match true only in states from which only accepting states are reachable (both sets exact, by graph reachability, so they quantify over ALL continuations); a third brute-force membership definition must agree with the reference or the run aborts; expressions: all leaves (13 fixed + all <=2-state DFAs over 2 symbols x all sound hints + 3-state samples), all unary over leaves, fixed x all leaves binary both orders, DFA x DFA binary (thorough: complete; quick: 18000 sampled), all unary(unary(leaf)), sampled depth 2 and 3; Str and Subsequence over patterns of 65535..131073 bytes driven directly (the pattern, and one byte removed / inserted / replaced around position 65535); Str and Subsequence over 31 patterns with characters a tidying constructor might drop, trim, fold or normalise (byte order mark and zero-width characters first/last/inside, blanks, tabs, CR LF, NUL, upper case, precomposed vs decomposed letters, U+FFFD, U+10FFFF), alone, under the unary combinators and in two binary combinations; inputs: all strings over the expression's symbol classes (each used byte + one representative of all other bytes) up to the budgeted length, the short ones replayed with 00/01/20/7f/80/c3/fe/ff in place of the representative, plus a shortest representative of every reference state extended by all strings <=2 (so every reference state is visited: ref-states-visited == ref-states-total); non-trivial = every evaluation; distinct = by construction",
            assumptions: vec!["component DFAs have sound hints by construction (the statement's premise)".into(), "bytes not used by any leaf behave identically in every leaf, so one representative is exact".into()],
            floors: floors_ref,
            exhaustive: Some(false),
        },
    )
}
