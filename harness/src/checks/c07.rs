//! C07 - Output bytes do not depend on how the sink accepts writes.
//! Event-log monitor on instrumented io::Write sinks; oracle = bytes of an in-memory build + reference CRC.
use crate::ctx::{finish, guard, Ctx, Ev, Spec};
use crate::gen::{self, Case, Kv};
use crate::json::J;
use crate::refdec;
use crate::sinks::{Fault, Outcome, Policy, Sink};
use fst::raw::{Builder, Fst};
use fst::{MapBuilder, SetBuilder};
use std::io::{BufWriter, Cursor, Write};

pub fn small_cases(ctx: &Ctx, want: usize) -> Vec<Case> {
    let fams = gen::pool(ctx.tier, ctx.seed, 1);
    let mut out = vec![];
    for f in &fams {
        let take = match f.name {
            "fanout" => want / 2,
            "single-bytes" => want / 10,
            "random" => want / 4,
            "ab3-subsets" => want / 6,
            _ => 0,
        };
        if take == 0 {
            continue;
        }
        let step = (f.count / take).max(1);
        let off = (ctx.seed as usize) % step;
        let mut i = off;
        while i < f.count && out.len() < 100_000 {
            let c = (f.make)(i);
            if c.kv.len() <= 600 {
                out.push(c);
            }
            i += step;
        }
    }
    out
}

/// build `kv` on `w`; after the header and after every insert `bytes_written` must equal what the sink accepted
fn build_on<W: Write>(kv: &Kv, fe: usize, w: W, accepted: &dyn Fn() -> Option<usize>) -> Result<W, String> {
    let chk = |bw: u64, at: &str| -> Result<(), String> {
        if let Some(a) = accepted() {
            if bw != a as u64 {
                return Err(format!("bytes_written() = {} but the sink has accepted {} bytes ({})", bw, a, at));
            }
        }
        Ok(())
    };
    match fe % 3 {
        0 => {
            let mut b = Builder::new(w).map_err(|e| format!("Builder::new: {}", e))?;
            chk(b.bytes_written(), "after new")?;
            for (i, (k, v)) in kv.iter().enumerate() {
                b.insert(k, *v).map_err(|e| format!("insert: {}", e))?;
                chk(b.bytes_written(), &format!("after insert #{}", i))?;
            }
            b.into_inner().map_err(|e| format!("into_inner: {}", e))
        }
        1 => {
            let mut b = MapBuilder::new(w).map_err(|e| format!("MapBuilder::new: {}", e))?;
            chk(b.bytes_written(), "after new")?;
            for (i, (k, v)) in kv.iter().enumerate() {
                b.insert(k, *v).map_err(|e| format!("insert: {}", e))?;
                chk(b.bytes_written(), &format!("after insert #{}", i))?;
            }
            b.into_inner().map_err(|e| format!("into_inner: {}", e))
        }
        _ => {
            if kv.iter().any(|(_, v)| *v != 0) {
                return build_on(kv, 0, w, accepted);
            }
            let mut b = SetBuilder::new(w).map_err(|e| format!("SetBuilder::new: {}", e))?;
            chk(b.bytes_written(), "after new")?;
            for (i, (k, _)) in kv.iter().enumerate() {
                b.insert(k).map_err(|e| format!("insert: {}", e))?;
                chk(b.bytes_written(), &format!("after insert #{}", i))?;
            }
            b.into_inner().map_err(|e| format!("into_inner: {}", e))
        }
    }
}

fn judge(bytes: &[u8], reference: &[u8], kv: &Kv) -> Result<(), String> {
    if bytes != reference {
        let at = bytes.iter().zip(reference.iter()).position(|(a, b)| a != b).unwrap_or(bytes.len().min(reference.len()));
        return Err(format!("sink holds {} bytes, in-memory build {} bytes; first difference at offset {}", bytes.len(), reference.len(), at));
    }
    let f = Fst::new(bytes).map_err(|e| format!("sink bytes do not open: {}", e))?;
    f.verify().map_err(|e| format!("sink bytes fail verify(): {}", e))?;
    if refdec::mask(refdec::crc32c(&bytes[..bytes.len() - 4])).to_le_bytes() != bytes[bytes.len() - 4..] {
        return Err("footer checksum differs from the reference CRC of the sink bytes".into());
    }
    if &f.stream().into_byte_vec() != kv {
        return Err("content read back from the sink bytes differs from the inserted map".into());
    }
    Ok(())
}

fn run_policy(case: &Case, reference: &[u8], pol: Policy, fe: usize, ev: &mut Ev) {
    let sink = Sink::new(pol.clone());
    let s2 = sink.clone();
    ev.eval(None);
    let r = guard(|| build_on(&case.kv, fe, sink.clone(), &|| Some(s2.accepted())).map(|_| ()));
    let log = sink.log();
    let mut shorts = 0;
    let mut ints = 0;
    for e in &log {
        match e.outcome {
            Outcome::Accepted(n) if e.write && n < e.offered => shorts += 1,
            Outcome::Interrupted => ints += 1,
            _ => {}
        }
    }
    ev.add("log:write-calls", log.iter().filter(|e| e.write).count() as u64);
    ev.add("log:short-accepts", shorts);
    ev.add("log:interrupted", ints);
    ev.count("schedules");
    let descr = || J::obj(vec![("case", case.describe()), ("policy", J::s(format!("{:?}", pol))), ("front_end", J::U(fe as u64 % 3)), ("write_calls", J::U(sink.write_calls() as u64))]);
    match r {
        Err(p) => ev.violate("sink-panic", format!("build on sink {:?} panicked: {}", pol, p), descr()),
        Ok(Err(e)) => ev.violate(if e.contains("bytes_written") { "bytes-written" } else { "sink-build-error" }, format!("policy {:?}: {}", pol, e), descr()),
        Ok(Ok(())) => {
            if let Err(e) = judge(&sink.data(), reference, &case.kv) {
                ev.violate("sink-bytes-differ", format!("policy {:?}: {}", pol, e), descr());
            } else if sink.committed_data().len() != reference.len() {
                // a sink that keeps only what was flushed (a transactional / staging writer) must end up with the same bytes
                ev.violate("sink-bytes-differ", format!("policy {:?}: finish() returned, but only {} of {} bytes had been written when the sink was last flushed (a commit-on-flush sink ends up with a truncated FST)", pol, sink.committed_data().len(), reference.len()), descr());
            }
        }
    }
}

/// "bytes_written() ALWAYS equals the number of bytes the sink has accepted so far" - also right after a call that failed because
/// the device filled up in the middle of a logical write (the accepted prefix of that write counts). One session = one build on a
/// sink with room for `total` bytes; the comparison is made after the header, after every successful insert and after the failing one.
fn capacity_session(case: &Case, total: usize, chunk: usize, fault: Fault, fe: usize, reflen: usize, ev: &mut Ev) {
    let pol = Policy::Capacity { total, chunk, fault };
    let sink = Sink::new(pol.clone());
    ev.eval(None);
    ev.count("capacity-sessions");
    macro_rules! session {
        ($new:expr, $ins:expr) => {{
            match $new {
                Err(_) => Ok("failed-in-new"),
                Ok(mut b) => {
                    let mut res = Ok("completed-inserts");
                    if b.bytes_written() != sink.accepted() as u64 {
                        res = Err(format!("bytes_written() = {} but the sink has accepted {} bytes (after new)", b.bytes_written(), sink.accepted()));
                    }
                    for (i, (k, v)) in case.kv.iter().enumerate() {
                        if res.is_err() {
                            break;
                        }
                        let r = $ins(&mut b, k, *v);
                        if b.bytes_written() != sink.accepted() as u64 {
                            res = Err(format!("bytes_written() = {} but the sink has accepted {} bytes (after insert #{} which {})", b.bytes_written(), sink.accepted(), i, if r { "succeeded" } else { "failed because the sink is full" }));
                        }
                        if !r {
                            if res.is_ok() {
                                res = Ok("failed-in-insert");
                            }
                            break;
                        }
                    }
                    res
                }
            }
        }};
    }
    let is_set = case.kv.iter().all(|(_, v)| *v == 0);
    let r: Result<Result<&str, String>, String> = guard(|| match (fe % 3, is_set) {
        (1, _) => session!(MapBuilder::new(sink.clone()), |b: &mut MapBuilder<Sink>, k: &Vec<u8>, v: u64| b.insert(k, v).is_ok()),
        (2, true) => session!(SetBuilder::new(sink.clone()), |b: &mut SetBuilder<Sink>, k: &Vec<u8>, _v: u64| b.insert(k).is_ok()),
        _ => session!(Builder::new(sink.clone()), |b: &mut Builder<Sink>, k: &Vec<u8>, v: u64| b.insert(k, v).is_ok()),
    });
    let descr = || J::obj(vec![("case", case.describe()), ("policy", J::s(format!("{:?}", pol))), ("front_end", J::U(fe as u64 % 3)), ("in_memory_len", J::U(reflen as u64))]);
    match r {
        Err(p) => ev.violate("sink-panic", format!("build on sink {:?} panicked: {}", pol, p), descr()),
        Ok(Err(e)) => ev.violate("bytes-written", format!("policy {:?}: {}", pol, e), descr()),
        Ok(Ok(what)) => ev.count(&format!("capacity-sessions:{}", what)),
    }
}

fn containers(case: &Case, reference: &[u8], ev: &mut Ev, tmp: &std::path::Path) {
    let kv = &case.kv;
    let fe = case.index;
    let mut one = |name: &str, r: Result<Result<Vec<u8>, String>, String>, prefix: usize| {
        ev.eval(None);
        ev.count(&format!("container:{}", name));
        match r {
            Err(p) => ev.violate("sink-panic", format!("{}: panicked: {}", name, p), case.describe()),
            Ok(Err(e)) => ev.violate("sink-build-error", format!("{}: {}", name, e), case.describe()),
            Ok(Ok(bytes)) => {
                if bytes.len() < prefix || bytes[..prefix].iter().any(|b| *b != 0xEE) {
                    ev.violate("sink-bytes-differ", format!("{}: the bytes the sink already held were disturbed", name), case.describe());
                } else if let Err(e) = judge(&bytes[prefix..], reference, kv) {
                    ev.violate("sink-bytes-differ", format!("{}: {}", name, e), case.describe());
                }
            }
        }
    };
    one("prefilled-vec", guard(|| build_on(kv, fe, vec![0xEEu8; 37], &|| None)), 37);
    // get_ref(): the writer seen through the builder holds exactly prefix + bytes_written() bytes after every call, and
    // those bytes are a prefix of the final result
    one(
        "get_ref-on-prefilled-vec",
        guard(|| {
            let mut seen: Vec<(usize, Vec<u8>)> = vec![];
            let bytes = match fe % 3 {
                0 => {
                    let mut b = Builder::new(vec![0xEEu8; 9]).map_err(|e| e.to_string())?;
                    for (k, v) in kv.iter() {
                        b.insert(k, *v).map_err(|e| e.to_string())?;
                        if b.get_ref().len() as u64 != 9 + b.bytes_written() {
                            return Err(format!("get_ref() shows {} bytes but bytes_written() = {} (+9 prefilled)", b.get_ref().len(), b.bytes_written()));
                        }
                        if seen.len() < 8 {
                            seen.push((b.get_ref().len(), b.get_ref()[b.get_ref().len().saturating_sub(8)..].to_vec()));
                        }
                    }
                    b.into_inner().map_err(|e| e.to_string())?
                }
                1 => {
                    let mut b = MapBuilder::new(vec![0xEEu8; 9]).map_err(|e| e.to_string())?;
                    for (k, v) in kv.iter() {
                        b.insert(k, *v).map_err(|e| e.to_string())?;
                        if b.get_ref().len() as u64 != 9 + b.bytes_written() {
                            return Err(format!("MapBuilder::get_ref() shows {} bytes but bytes_written() = {} (+9 prefilled)", b.get_ref().len(), b.bytes_written()));
                        }
                        if seen.len() < 8 {
                            seen.push((b.get_ref().len(), b.get_ref()[b.get_ref().len().saturating_sub(8)..].to_vec()));
                        }
                    }
                    b.into_inner().map_err(|e| e.to_string())?
                }
                _ => {
                    if kv.iter().any(|(_, v)| *v != 0) {
                        return build_on(kv, 0, vec![0xEEu8; 9], &|| None);
                    }
                    let mut b = SetBuilder::new(vec![0xEEu8; 9]).map_err(|e| e.to_string())?;
                    for (k, _) in kv.iter() {
                        b.insert(k).map_err(|e| e.to_string())?;
                        if b.get_ref().len() as u64 != 9 + b.bytes_written() {
                            return Err(format!("SetBuilder::get_ref() shows {} bytes but bytes_written() = {} (+9 prefilled)", b.get_ref().len(), b.bytes_written()));
                        }
                        if seen.len() < 8 {
                            seen.push((b.get_ref().len(), b.get_ref()[b.get_ref().len().saturating_sub(8)..].to_vec()));
                        }
                    }
                    b.into_inner().map_err(|e| e.to_string())?
                }
            };
            for (len, tail) in &seen {
                if bytes.len() < *len || bytes[len - tail.len()..*len] != tail[..] {
                    return Err("bytes seen through get_ref() during the build are not a prefix of the final result".into());
                }
            }
            Ok(bytes)
        }),
        9,
    );
    for cap in [1usize, 7, 8192].iter() {
        one(&format!("bufwriter-{}", cap), guard(|| build_on(kv, fe, BufWriter::with_capacity(*cap, Vec::new()), &|| None).and_then(|w| w.into_inner().map_err(|e| e.to_string()))), 0);
    }
    one(
        "bufwriter-over-short-sink",
        guard(|| {
            let s = Sink::new(Policy::Script(vec![1, 5, 2, 300]));
            build_on(kv, fe, BufWriter::with_capacity(11, s.clone()), &|| None).and_then(|mut w| w.flush().map_err(|e| e.to_string())).map(|_| s.data())
        }),
        0,
    );
    one("cursor", guard(|| build_on(kv, fe, Cursor::new(Vec::new()), &|| None).map(|c| c.into_inner())), 0);
    one(
        "cursor-prefilled",
        guard(|| {
            let mut c = Cursor::new(vec![0xEEu8; 5]);
            c.set_position(5);
            build_on(kv, fe, c, &|| None).map(|c| c.into_inner())
        }),
        5,
    );
    if case.index % 8 == 0 {
        let path = tmp.join(format!("c07-{}-{}.fst", case.family, case.index));
        one(
            "file",
            guard(|| {
                let f = std::fs::File::create(&path).map_err(|e| e.to_string())?;
                build_on(kv, fe, f, &|| None)?;
                std::fs::read(&path).map_err(|e| e.to_string())
            }),
            0,
        );
        let _ = std::fs::remove_file(&path);
    }
}

pub fn run(ctx: &Ctx) -> i32 {
    let cases = small_cases(ctx, ctx.tier.pick(500, 3000));
    let tmp = ctx.root.join("target").join("tmp");
    let _ = std::fs::create_dir_all(&tmp);
    let maxpos = ctx.tier.pick(150, 2000);
    let ev = ctx.par(|shard, n, ev| {
        for (ci, case) in cases.iter().enumerate() {
            if ci % n != shard {
                continue;
            }
            let reference = match guard(|| {
                let mut b = Builder::memory();
                for (k, v) in &case.kv {
                    b.insert(k, *v).unwrap();
                }
                b.into_inner().unwrap()
            }) {
                Ok(b) => b,
                Err(p) => {
                    ev.violate("sink-panic", format!("in-memory build panicked: {}", p), case.describe());
                    continue;
                }
            };
            // clean run on the logging sink: number of write calls, biggest single write
            let clean = Sink::new(Policy::Full);
            let c2 = clean.clone();
            if let Ok(Ok(_)) = guard(|| build_on(&case.kv, case.index, clean.clone(), &|| Some(c2.accepted()))) {
                if let Err(e) = judge(&clean.data(), &reference, &case.kv) {
                    ev.violate("sink-bytes-differ", format!("fully accepting sink: {}", e), case.describe());
                    continue;
                }
            } else {
                ev.violate("sink-build-error", "build on a fully accepting sink failed".into(), case.describe());
                continue;
            }
            let w = clean.write_calls();
            ev.max("max:largest-single-write", clean.log().iter().map(|e| e.offered).max().unwrap_or(0) as u64);
            let before = ev.evaluations;
            let fe = case.index;
            for cap in 1..=16 {
                run_policy(case, &reference, Policy::Cap(cap), fe + cap, ev);
            }
            let step = (w / maxpos).max(1);
            let mut p = (case.index + ctx.seed as usize) % step;
            while p < w {
                run_policy(case, &reference, Policy::ShortAt(p), fe + p, ev);
                run_policy(case, &reference, Policy::InterruptAt(vec![p]), fe + p + 1, ev);
                p += step;
            }
            run_policy(case, &reference, Policy::InterruptEvery(2), fe, ev);
            run_policy(case, &reference, Policy::InterruptEvery(3), fe + 1, ev);
            run_policy(case, &reference, Policy::InterruptAt((0..w).step_by(5).collect()), fe + 2, ev);
            for scr in [vec![1usize, 2, 3], vec![3, 1], vec![255, 1], vec![2], vec![7, 1, 1, 64]].iter() {
                run_policy(case, &reference, Policy::Script(scr.clone()), fe, ev);
            }
            for r in 0..ctx.tier.pick(4, 12) {
                run_policy(case, &reference, Policy::Random(ctx.seed ^ (ci as u64) << 8 ^ r), fe + r as usize, ev);
            }
            // a sink that drives another fst builder on the same thread inside every write call
            run_policy(case, &reference, Policy::Reentrant { cap: 1 + ci % 9 }, fe, ev);
            ev.count("container:reentrant-sink");
            // a moderate run of consecutive Interrupted in-process (the long storms run in a child process, see below)
            run_policy(case, &reference, Policy::InterruptStorm { at: ci % (w.max(1)), n: 300, cap: 2 + ci % 5 }, fe + 1, ev);
            // a device that fills up after `total` bytes: bytes_written() is compared with the sink also after the failing call
            let rl = reference.len();
            let cstep = (rl / ctx.tier.pick(40, 400)).max(1);
            let mut total = (ci + ctx.seed as usize) % cstep;
            while total <= rl + 1 {
                let fault = if (total + ci) % 2 == 0 { Fault::Err(std::io::ErrorKind::Other) } else { Fault::Zero };
                let chunk = [usize::MAX, 3, 1, 64][(total / cstep + ci) % 4];
                capacity_session(case, total, chunk, fault, fe + total, rl, ev);
                total += cstep;
            }
            containers(case, &reference, ev, &tmp);
            ev.distinct_extra += ev.evaluations - before;
            ev.fps.insert(case.fp());
            ev.count("fsts");
            if ci % 97 == 5 {
                ev.sample(J::obj(vec![("case", case.describe()), ("write_calls_clean", J::U(w as u64)), ("schedules", J::s("Cap(1..16), ShortAt(p)/InterruptAt(p) for p over the write calls, InterruptEvery(2|3), scripts, random, containers"))]));
            }
        }
        // larger inputs under random schedules
        if shard < ctx.tier.pick(2, 8) {
            let name = ["words-10000", "wiki-urls-10000"][shard % 2];
            let keys = gen::corpus(name);
            if !keys.is_empty() {
                let mut rng = crate::rng::Rng::new(ctx.seed, 0xC07 + shard as u64);
                let case = Case { kv: gen::assign(keys, [1, 5, 0, 4][shard % 4], &mut rng), set: false, family: "corpus", index: shard };
                let mut b = Builder::memory();
                for (k, v) in &case.kv {
                    b.insert(k, *v).unwrap();
                }
                let reference = b.into_inner().unwrap();
                for r in 0..3 {
                    run_policy(&case, &reference, Policy::Random(ctx.seed + r + shard as u64 * 10), shard + r as usize, ev);
                }
                run_policy(&case, &reference, Policy::Cap(3), shard, ev);
                ev.distinct_extra += 4;
            }
        }
    });
    // "Interrupted any number of times": very long runs of consecutive Interrupted. A stack overflow or abort cannot be
    // caught in-process, so these run in a child process; death by signal is the observation.
    let mut ev = ev;
    let exe = std::env::current_exe().ok();
    for (si, n) in [100_000u64, 3_000_000].iter().enumerate() {
        ev.eval(Some(crate::rng::fnv_u64(0x570e, *n)));
        let out = exe.as_ref().and_then(|e| std::process::Command::new(e).arg("C07-storm").arg("--seed").arg((ctx.seed + si as u64).to_string()).arg(n.to_string()).output().ok());
        match out {
            Some(o) => {
                let text = String::from_utf8_lossy(&o.stdout).to_string();
                if o.status.success() && text.contains("STORM-OK") {
                    ev.count("interrupt-storm-children-ok");
                } else if text.contains("STORM-MISMATCH") {
                    ev.violate("sink-bytes-differ", format!("after {} consecutive Interrupted returns the sink bytes differ from the in-memory build: {}", n, text.lines().find(|l| l.contains("STORM-MISMATCH")).unwrap_or("")), J::U(*n));
                } else {
                    use std::os::unix::process::ExitStatusExt;
                    let err = String::from_utf8_lossy(&o.stderr).to_string();
                    ev.violate("crash-under-interrupt-storm", format!("the builder process died (exit {:?}, signal {:?}) while a sink returned Interrupted {} times in a row: {}", o.status.code(), o.status.signal(), n, err.lines().last().unwrap_or("")), J::U(*n));
                }
            }
            None => ev.count("interrupt-storm-child-not-started(inconclusive)"),
        }
    }
    finish(
        ctx,
        ev,
        Spec {
            level: "fault_enumeration",
            rule: "one evaluation = one complete build of one key sequence on one instrumented sink schedule; after the header and after EVERY insert (also the insert that fails when a capacity-limited sink fills up in the middle of a logical write) bytes_written() is compared with the bytes the sink has accepted, and at the end the sink bytes are compared with the in-memory build, reopened, verify()'d, CRC-checked by the bit-wise reference and read back; schedules per FST: caps 1..16, a single one-byte accept at every write-call position p (quick: <=150 evenly spaced positions when there are more), Interrupted at every position p, every 2nd/3rd call, every 5th position at once, acceptance scripts, seeded random lengths+interrupts, a sink that drives another fst builder inside every write call, runs of 300 consecutive Interrupted in-process and of 10^5 and 3*10^6 in a child process (death by signal = violation), prefilled Vec/Cursor, BufWriter(1|7|8192), BufWriter over a short-accepting sink, Cursor, File; FSTs: fan-out palette (incl. >32 transitions, so a 256-byte index write exists), single bytes, random maps, exhaustive-family samples, two corpora; non-trivial = every schedule; distinct = (FST, schedule), distinct by construction",
            assumptions: vec!["the sink follows the io::Write contract (accepts 1..=len bytes or returns an error)".into()],
            floors: vec![("log:short-accepts", 1000), ("log:interrupted", 1000), ("container:file", 5), ("container:prefilled-vec", 50), ("container:reentrant-sink", 50), ("interrupt-storm-children-ok", 2), ("capacity-sessions:failed-in-insert", 1000)],
            exhaustive: Some(!ctx.quick()),
        },
    )
}


/// `fstmon C07-storm --seed S <n>`: build on a sink that returns Interrupted n times in a row at several write calls
pub fn storm_child(seed: u64, n: u64) -> i32 {
    let mut rng = crate::rng::Rng::new(seed, 0x570e);
    let keys = gen::random_keys(&mut rng, 300, b"abcdefgh", 6);
    let kv = gen::assign(keys, 5, &mut rng);
    let mut b = Builder::memory();
    for (k, v) in &kv {
        b.insert(k, *v).unwrap();
    }
    let reference = b.into_inner().unwrap();
    for at in [0usize, 3, 200].iter() {
        let sink = Sink::new(Policy::InterruptStorm { at: *at, n, cap: 3 });
        let mut b = match Builder::new(sink.clone()) {
            Ok(b) => b,
            Err(e) => {
                println!("STORM-MISMATCH new failed: {}", e);
                return 1;
            }
        };
        for (k, v) in &kv {
            if let Err(e) = b.insert(k, *v) {
                println!("STORM-MISMATCH insert failed: {}", e);
                return 1;
            }
        }
        if let Err(e) = b.finish() {
            println!("STORM-MISMATCH finish failed: {}", e);
            return 1;
        }
        if sink.data() != reference {
            println!("STORM-MISMATCH at={} sink has {} bytes, reference {}", at, sink.data().len(), reference.len());
            return 1;
        }
    }
    println!("STORM-OK n={}", n);
    0
}
