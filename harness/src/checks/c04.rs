//! C04 - Automaton search returns exactly the accepted in-range keys, with states.
//! Oracle: independent run of the explicit DFA on every model key (+ brute-force language semantics for
//! the shipped automata). Online monitor (hook H3): every stack frame holds run(dfa, key_buffer[..depth]).
use crate::autspec::SpecE;
use crate::build::{self, Front};
use crate::ctx::{finish, guard, Ctx, Ev, Spec};
use crate::dfa::Dfa;
use crate::gen::{self, Kv};
use crate::json::J;
use crate::rangeq::{self, Hi, Lo};
use crate::rng::Rng;
use crate::with_bounds;
use fst::raw::Fst;
use fst::{Automaton, IntoStreamer, Map, Set, Streamer};

fn desc(kv: &Kv, aut: J, lo: &Lo, hi: &Hi) -> J {
    J::obj(vec![
        ("automaton", aut),
        ("query", J::s(rangeq::show_q(lo, hi))),
        ("nkeys", J::U(kv.len() as u64)),
        ("entries", J::A(kv.iter().take(20).map(|(k, v)| J::A(vec![J::bytes(k), J::U(*v)])).collect())),
    ])
}

fn queries(bounds: &[Vec<u8>], all_pairs: bool, rng: &mut Rng) -> Vec<(Lo, Hi)> {
    let mut q = vec![(Lo::None, Hi::None)];
    for x in bounds {
        q.push((Lo::Ge(x.clone()), Hi::None));
        q.push((Lo::Gt(x.clone()), Hi::None));
        q.push((Lo::None, Hi::Le(x.clone())));
        q.push((Lo::None, Hi::Lt(x.clone())));
    }
    for x in bounds {
        for y in bounds {
            if !all_pairs && rng.below(6) != 0 {
                continue;
            }
            q.push((Lo::Ge(x.clone()), Hi::Le(y.clone())));
            q.push((Lo::Ge(x.clone()), Hi::Lt(y.clone())));
            q.push((Lo::Gt(x.clone()), Hi::Le(y.clone())));
            q.push((Lo::Gt(x.clone()), Hi::Lt(y.clone())));
        }
    }
    q
}

/// one (dfa, fst, query): oracle + monitored raw search + one wrapper API
fn dfa_query(bytes: &[u8], kv: &Kv, d: &Dfa, lo: &Lo, hi: &Hi, rot: usize, ev: &mut Ev, hooks: &mut u64) -> bool {
    ev.eval(None);
    let want = rangeq::expected(kv, lo, hi, &|k| d.accepts(k));
    let fst = Fst::new(bytes).unwrap();
    // coverage facts decided from the inputs
    if let Lo::Ge(b) | Lo::Gt(b) = lo {
        if !b.is_empty() && (0..=b.len()).any(|l| !d.can_hint[d.run(&b[..l])]) {
            ev.count("cov:lower-bound-path-pruned-by-can_match");
        }
    }
    if want.first().map(|w| w.0.is_empty()).unwrap_or(false) {
        ev.count("cov:empty-key-emitted-with-state");
    }
    let r = guard(|| rangeq::monitored(&fst, d.clone(), lo, hi, &|p| d.run(p), hooks));
    let got = match r {
        Err(p) => {
            ev.violate("search-panic", format!("search panicked: {} ({})", p, rangeq::show_q(lo, hi)), desc(kv, d.describe(), lo, hi));
            return false;
        }
        Ok(Err(e)) => {
            ev.violate("search-mismatch", format!("{} ({})", e, rangeq::show_q(lo, hi)), desc(kv, d.describe(), lo, hi));
            return false;
        }
        Ok(Ok(g)) => g,
    };
    let (got, breach) = got;
    let diag = breach.as_ref().map(|b| format!(" [hook H3 diagnosis: {}]", b)).unwrap_or_default();
    let same = got.len() == want.len() && got.iter().zip(want.iter()).all(|(g, w)| g.0 == w.0 && g.1 == w.1);
    if !same {
        ev.violate(
            "search-mismatch",
            format!("search_with_state {}: got {:?} want {:?}{}", rangeq::show_q(lo, hi), got.iter().map(|g| crate::json::show_bytes(&g.0)).collect::<Vec<_>>(), want.iter().map(|w| crate::json::show_bytes(&w.0)).collect::<Vec<_>>(), diag),
            desc(kv, d.describe(), lo, hi),
        );
        return false;
    }
    for g in &got {
        if g.2 != d.run(&g.0) {
            ev.violate("reported-state", format!("search_with_state reported state {} for key {} but the automaton reaches {}", g.2, crate::json::show_bytes(&g.0), d.run(&g.0)), desc(kv, d.describe(), lo, hi));
            return false;
        }
    }
    if breach.is_some() {
        ev.count("hook:invariant-breach-with-correct-output(recorded, not judged)");
    }
    // one wrapper API in rotation
    let r = guard(|| -> Result<(), String> {
        match rot % 4 {
            0 => {
                let got = with_bounds!(fst.search(d.clone()), lo, hi).into_stream().into_byte_vec();
                if got.len() != want.len() || !got.iter().zip(want.iter()).all(|(g, w)| g.0 == w.0 && g.1 == w.1) {
                    return Err("Fst::search differs".into());
                }
            }
            1 => {
                let m = Map::new(bytes).map_err(|e| e.to_string())?;
                let got = with_bounds!(m.search(d), lo, hi).into_stream().into_byte_vec();
                if got.len() != want.len() || !got.iter().zip(want.iter()).all(|(g, w)| g.0 == w.0 && g.1 == w.1) {
                    return Err("Map::search(&dfa) differs".into());
                }
            }
            2 => {
                let m = Map::new(bytes).map_err(|e| e.to_string())?;
                let mut s = with_bounds!(m.search_with_state(d.clone()), lo, hi).into_stream();
                let mut i = 0;
                while let Some((k, v, st)) = s.next() {
                    if i >= want.len() || k != &want[i].0[..] || v != want[i].1 || st != d.run(k) {
                        return Err(format!("Map::search_with_state entry {} differs", i));
                    }
                    i += 1;
                }
                if i != want.len() {
                    return Err("Map::search_with_state ended early".into());
                }
            }
            _ => {
                let set = Set::new(bytes).map_err(|e| e.to_string())?;
                let mut s = with_bounds!(set.search_with_state(d.clone()), lo, hi).into_stream();
                let mut i = 0;
                while let Some((k, st)) = s.next() {
                    if i >= want.len() || k != &want[i].0[..] || st != d.run(k) {
                        return Err(format!("Set::search_with_state entry {} differs", i));
                    }
                    i += 1;
                }
                if i != want.len() {
                    return Err("Set::search_with_state ended early".into());
                }
                let got = with_bounds!(set.search(d.clone()), lo, hi).into_stream().into_bytes();
                if got.len() != want.len() || !got.iter().zip(want.iter()).all(|(g, w)| g == &w.0) {
                    return Err("Set::search differs".into());
                }
            }
        }
        Ok(())
    });
    match r {
        Err(p) => {
            ev.violate("search-panic", format!("wrapper search panicked: {}", p), desc(kv, d.describe(), lo, hi));
            false
        }
        Ok(Err(e)) => {
            ev.violate("search-mismatch", format!("{} ({})", e, rangeq::show_q(lo, hi)), desc(kv, d.describe(), lo, hi));
            false
        }
        Ok(Ok(())) => true,
    }
}

fn spec_leaves(rng: &mut Rng) -> Vec<SpecE> {
    vec![
        SpecE::Str("the".into()),
        SpecE::Str("".into()),
        SpecE::Str("ab".into()),
        SpecE::Subseq("ab".into()),
        SpecE::Subseq("".into()),
        SpecE::Subseq("tion".into()),
        SpecE::Always,
        SpecE::Lev("test".into(), 1),
        SpecE::Lev("abc".into(), 2),
        SpecE::Lev("".into(), 1),
        SpecE::Dfa(Dfa::random(rng, 4, b"aeiost")),
        SpecE::Dfa(Dfa::random(rng, 6, b"ab").weaken_randomly(rng)),
    ]
}

pub fn spec_exprs(rng: &mut Rng, n: usize) -> Vec<SpecE> {
    let leaves = spec_leaves(rng);
    let mut out: Vec<SpecE> = leaves.clone();
    let un = |k: usize, a: SpecE| match k % 3 {
        0 => SpecE::StartsWith(Box::new(a)),
        1 => SpecE::Compl(Box::new(a)),
        _ => SpecE::Ref(Box::new(a)),
    };
    for (i, l) in leaves.iter().enumerate() {
        for k in 0..3 {
            out.push(un(k, l.clone()));
        }
        let o = leaves[(i * 5 + 3) % leaves.len()].clone();
        out.push(SpecE::Union(Box::new(l.clone()), Box::new(o.clone())));
        out.push(SpecE::Inter(Box::new(l.clone()), Box::new(o)));
    }
    // pruning-relevant compositions, complete over a small leaf set: here a wrong can_match/will_always_match of a
    // combinator prunes (or fails to emit) whole subtrees of accepted keys
    let prune_leaves: Vec<SpecE> = vec![
        SpecE::Always,
        SpecE::StartsWith(Box::new(SpecE::Str("a".into()))),
        SpecE::StartsWith(Box::new(SpecE::Str("th".into()))),
        SpecE::Subseq("a".into()),
        SpecE::Subseq("e".into()),
        SpecE::Str("ab".into()),
        SpecE::Str("the".into()),
        SpecE::Str("".into()),
        SpecE::Compl(Box::new(SpecE::StartsWith(Box::new(SpecE::Str("a".into()))))),
        SpecE::Compl(Box::new(SpecE::Always)),
        leaves[10].clone(),
    ];
    for x in &prune_leaves {
        for y in &prune_leaves {
            let (bx, by) = (|| Box::new(x.clone()), || Box::new(y.clone()));
            out.push(SpecE::Compl(Box::new(SpecE::Inter(bx(), by()))));
            out.push(SpecE::Compl(Box::new(SpecE::Union(bx(), by()))));
            out.push(SpecE::StartsWith(Box::new(SpecE::Inter(bx(), by()))));
            out.push(SpecE::Inter(Box::new(SpecE::Compl(bx())), by()));
            out.push(SpecE::Union(Box::new(SpecE::Compl(bx())), Box::new(SpecE::Compl(by()))));
        }
        out.push(SpecE::StartsWith(Box::new(SpecE::Compl(Box::new(SpecE::StartsWith(Box::new(x.clone())))))));
        out.push(SpecE::StartsWith(Box::new(SpecE::StartsWith(Box::new(x.clone())))));
        out.push(SpecE::Compl(Box::new(SpecE::Compl(Box::new(x.clone())))));
    }
    let n = n + out.len();
    while out.len() < n {
        // random depth-2 expression
        let a = rng.pick(&leaves).clone();
        let b = rng.pick(&leaves).clone();
        let inner = match rng.below(5) {
            0 => SpecE::Union(Box::new(a), Box::new(b)),
            1 => SpecE::Inter(Box::new(a), Box::new(b)),
            k => un(k as usize, a),
        };
        let c = rng.pick(&leaves).clone();
        let e = match rng.below(5) {
            0 => SpecE::Union(Box::new(inner), Box::new(c)),
            1 => SpecE::Inter(Box::new(c), Box::new(inner)),
            k => un(k as usize, inner),
        };
        out.push(e);
    }
    out
}

fn spec_query(bytes: &[u8], kv: &Kv, e: &SpecE, lo: &Lo, hi: &Hi, ev: &mut Ev) {
    ev.eval(None);
    ev.count("shipped-automaton-queries");
    let want = rangeq::expected(kv, lo, hi, &|k| e.matches(k));
    let r = guard(|| {
        let fst = Fst::new(bytes).unwrap();
        with_bounds!(fst.search(e.to_expr()), lo, hi).into_stream().into_byte_vec()
    });
    match r {
        Err(p) => ev.violate("search-panic", format!("search({}) panicked: {}", e.show(), p), desc(kv, J::s(e.show()), lo, hi)),
        Ok(got) => {
            if got.len() != want.len() || !got.iter().zip(want.iter()).all(|(g, w)| g.0 == w.0 && g.1 == w.1) {
                let firstdiff = got.iter().map(|g| &g.0).zip(want.iter().map(|w| &w.0)).find(|(a, b)| a != b).map(|(a, b)| format!("got {} want {}", crate::json::show_bytes(a), crate::json::show_bytes(b))).unwrap_or_else(|| format!("{} vs {} entries", got.len(), want.len()));
                ev.violate("search-mismatch", format!("search({}) {}: {}", e.show(), rangeq::show_q(lo, hi), firstdiff), desc(kv, J::s(e.show()), lo, hi));
            }
        }
    }
}

pub fn run(ctx: &Ctx) -> i32 {
    let quick = ctx.quick();
    let u2 = gen::universe(b"ab", 2);
    let u3 = gen::universe(b"ab", 3);
    // the DFA list is the unit of sharding
    let mut dfas: Vec<(Dfa, &'static str)> = vec![];
    for n in 1..=2 {
        for d in Dfa::enumerate(n, b"ab") {
            for v in d.all_hint_variants(16) {
                dfas.push((v, "enumerated<=2"));
            }
        }
    }
    {
        let all3 = Dfa::enumerate(3, b"ab");
        let step = ctx.tier.pick(29, 3);
        for (i, d) in all3.into_iter().enumerate() {
            if i % step == (ctx.seed as usize) % step {
                let mut r = Rng::new(ctx.seed, 0x3333 + i as u64);
                dfas.push((d.weaken_randomly(&mut r), "enumerated3-sampled"));
            }
        }
    }
    {
        let mut r = Rng::new(ctx.seed, 0xC04);
        for _ in 0..ctx.tier.pick(300, 4000) {
            let d = Dfa::random(&mut r, 8, b"ab");
            dfas.push((d.weaken_randomly(&mut r), "random<=8"));
        }
    }
    let ndfas = dfas.len();
    let ev = ctx.par(|shard, n, ev| {
        let mut hooks = 0u64;
        let mut rng = Rng::new(ctx.seed, 0xC04_000 + shard as u64);
        // FSTs: all subsets of {a,b}^<=2 + sampled subsets of {a,b}^<=3
        let mut fsts: Vec<(Kv, Vec<u8>)> = vec![];
        for mask in 0..(1u64 << u2.len()) {
            let kv = gen::assign(gen::subset(&u2, mask), [1usize, 5, 0, 4][(mask % 4) as usize], &mut rng);
            let bytes = build::build(Front::MapInsert, &kv).expect("build");
            fsts.push((kv, bytes));
        }
        let n3 = ctx.tier.pick(24, 400);
        for i in 0..n3 {
            let mask = crate::rng::mix(ctx.seed ^ (i as u64 * 977)) % (1u64 << u3.len());
            let kv = gen::assign(gen::subset(&u3, mask), [1usize, 5, 4][i % 3], &mut rng);
            let bytes = build::build(Front::RawGeom(1, 1), &kv).expect("build");
            fsts.push((kv, bytes));
        }
        let mut bounds: Vec<Vec<u8>> = u2.clone();
        bounds.push(b"abb".to_vec());
        bounds.push(b"a\x00".to_vec());
        for (di, (d, kind)) in dfas.iter().enumerate() {
            if di % n != shard {
                continue;
            }
            ev.count(&format!("dfas:{}", kind));
            if d.exact_can().iter().any(|c| !c) {
                ev.count("cov:dfas-with-dead-states");
            }
            if d.accept[0] {
                ev.count("cov:dfas-with-accepting-start");
            }
            if d.can_hint != d.exact_can() || d.always_hint != d.exact_always() {
                ev.count("cov:dfas-with-weakened-hints");
            }
            let full = *kind == "enumerated<=2";
            let mut rot = di;
            for (fi, (kv, bytes)) in fsts.iter().enumerate() {
                // enumerated DFAs see every FST; the others a rotating third
                if !full && (fi + di) % 3 != 0 {
                    continue;
                }
                let qs = queries(&bounds, full && !quick || full && fi % 4 == di % 4, &mut rng);
                let before = ev.evaluations;
                let mut bad = 0;
                for (lo, hi) in &qs {
                    if bad >= 2 {
                        break;
                    }
                    if !dfa_query(bytes, kv, d, lo, hi, rot, ev, &mut hooks) {
                        bad += 1;
                    }
                    rot += 1;
                }
                ev.distinct_extra += ev.evaluations - before;
            }
            if di % 997 == 3 {
                ev.sample(J::obj(vec![("dfa", d.describe()), ("fsts", J::s("all subsets of {a,b}^<=2 and sampled subsets of {a,b}^<=3")), ("bounds", J::A(bounds.iter().map(|b| J::bytes(b)).collect()))]));
            }
        }
        // wide nodes (fan-out 33..256, i.e. indexed lookups during seek) x random DFAs over all byte classes x bounds
        // that diverge at the wide node
        for (wi, &fo) in [33usize, 64, 255, 256].iter().enumerate() {
            for depth in 0..2usize {
                let idx = wi * 2 + depth;
                if idx % n != shard {
                    continue;
                }
                let mut r = Rng::new(ctx.seed, 0x4_31de + idx as u64);
                let keys = gen::fanout_keys(fo, depth, idx % 2 == 0, true, &mut r);
                let kv = gen::assign(keys, [1usize, 5][idx % 2], &mut r);
                let bytes = build::build(Front::MapInsert, &kv).expect("build");
                let prefix: Vec<u8> = kv.iter().find(|(k, _)| k.len() > depth).map(|(k, _)| k[..depth].to_vec()).unwrap_or_default();
                let mut wb: Vec<Vec<u8>> = vec![vec![], prefix.clone()];
                for b in [0x00u8, 0x01, 0x80, 0xfe, 0xff, kv[kv.len() / 2].0.get(depth).cloned().unwrap_or(7), kv[kv.len() / 3].0.get(depth).cloned().unwrap_or(9).wrapping_add(1)].iter() {
                    let mut x = prefix.clone();
                    x.push(*b);
                    wb.push(x.clone());
                    x.push(b'x');
                    wb.push(x);
                }
                wb.sort();
                wb.dedup();
                let sigma: Vec<u8> = (0..=255u8).step_by(3).collect();
                for di in 0..ctx.tier.pick(12, 60) {
                    let d = Dfa::random(&mut r, 4, &sigma).weaken_randomly(&mut r);
                    let qs = queries(&wb, false, &mut r);
                    let before = ev.evaluations;
                    let mut bad = 0;
                    for (qi, (lo, hi)) in qs.iter().enumerate() {
                        if bad < 2 && !dfa_query(&bytes, &kv, &d, lo, hi, di + qi, ev, &mut hooks) {
                            bad += 1;
                        }
                    }
                    ev.distinct_extra += ev.evaluations - before;
                }
                ev.count("fsts:wide-nodes");
            }
        }
        // shipped automata and combinators on a corpus and on small sets
        let exprs = spec_exprs(&mut Rng::new(ctx.seed, 0xE4), ctx.tier.pick(120, 600));
        let words = gen::corpus("words-10000");
        let kvw = gen::assign(words, 1, &mut rng);
        let wbytes = build::build(Front::MapInsert, &kvw).expect("build");
        let small: Kv = gen::assign(gen::universe(b"ab", 4), 1, &mut rng);
        let sbytes = build::build(Front::MapInsert, &small).expect("build");
        for (ei, e) in exprs.iter().enumerate() {
            if ei % n != shard {
                continue;
            }
            ev.count("shipped-expressions");
            let before = ev.evaluations;
            let lo_hi: Vec<(Lo, Hi)> = vec![
                (Lo::None, Hi::None),
                (Lo::Ge(b"m".to_vec()), Hi::None),
                (Lo::Gt(kvw[rng.usize(kvw.len())].0.clone()), Hi::Le(kvw[rng.usize(kvw.len())].0.clone())),
                (Lo::None, Hi::Lt(b"the".to_vec())),
            ];
            for (lo, hi) in &lo_hi {
                spec_query(&wbytes, &kvw, e, lo, hi, ev);
            }
            for (lo, hi) in queries(&[b"".to_vec(), b"ab".to_vec(), b"abab".to_vec(), b"b".to_vec()], true, &mut rng).iter() {
                spec_query(&sbytes, &small, e, lo, hi, ev);
            }
            ev.distinct_extra += ev.evaluations - before;
            if ei == 40 {
                ev.sample(J::obj(vec![("expression", J::s(e.show())), ("fst", J::s("words-10000 (value=index) and all of {a,b}^<=4"))]));
            }
        }
        // regex DFAs exactly as fst-bin builds them (dense, anchored, byte classes, premultiplied) and sparse
        if shard == 0 {
            let pats = ["a.*", "[a-c]+s", "(ab|ba)*", ".*ing", "the.?", "[^a]*", "", "x{2,3}y?"];
            for p in pats.iter().take(ctx.tier.pick(5, 8)) {
                let dense = regex_automata::dense::Builder::new().anchored(true).byte_classes(true).premultiply(true).build(p);
                let dense = match dense {
                    Ok(d) => d,
                    Err(_) => continue,
                };
                for (lo, hi) in [(Lo::None, Hi::None), (Lo::Ge(b"b".to_vec()), Hi::Lt(b"t".to_vec()))].iter() {
                    ev.eval(None);
                    ev.count("regex-dfa-queries");
                    let accepts = |k: &[u8]| {
                        let mut s = dense.start();
                        for &b in k {
                            s = Automaton::accept(&dense, &s, b);
                        }
                        Automaton::is_match(&dense, &s)
                    };
                    let want = rangeq::expected(&kvw, lo, hi, &accepts);
                    let fst = Fst::new(&wbytes[..]).unwrap();
                    let runner = |p: &[u8]| {
                        let mut s = dense.start();
                        for &b in p {
                            s = Automaton::accept(&dense, &s, b);
                        }
                        s
                    };
                    match guard(|| rangeq::monitored(&fst, &dense, lo, hi, &runner, &mut hooks)) {
                        Ok(Ok((got, _))) => {
                            if got.len() != want.len() || !got.iter().zip(want.iter()).all(|(g, w)| g.0 == w.0 && g.1 == w.1) {
                                ev.violate("search-mismatch", format!("regex DFA /{}/ {}: {} results, oracle {}", p, rangeq::show_q(lo, hi), got.len(), want.len()), J::s(*p));
                            }
                        }
                        Ok(Err(e)) => ev.violate("search-mismatch", format!("regex DFA /{}/: {}", p, e), J::s(*p)),
                        Err(pn) => ev.violate("search-panic", format!("regex DFA /{}/ panicked: {}", p, pn), J::s(*p)),
                    }
                    // sparse flavour
                    if let Ok(sparse) = dense.to_sparse() {
                        let got = with_bounds!(fst.search(&sparse), lo, hi).into_stream().into_byte_vec();
                        if got.len() != want.len() || !got.iter().zip(want.iter()).all(|(g, w)| g.0 == w.0 && g.1 == w.1) {
                            ev.violate("search-mismatch", format!("sparse regex DFA /{}/ differs from the dense oracle", p), J::s(*p));
                        }
                    }
                }
            }
        }
        ev.add("hook:frame-state-checks", hooks);
    });
    let mut ev = ev;
    // pruning automata under upper bounds of 250..600 bytes that share a prefix with an fst path
    {
        use fst::automaton::{Str, Subsequence};
        let keys: Vec<Vec<u8>> = vec![b"aax".to_vec(), b"ax".to_vec(), b"ay".to_vec(), b"b".to_vec(), b"ba".to_vec(), b"c".to_vec()];
        let set = Set::from_iter(keys.iter()).unwrap();
        for len in (250usize..=600).step_by(7).chain(255..=258) {
            for fill in [b'a', b'b'].iter() {
                let bound = vec![*fill; len];
                for incl in [false, true].iter() {
                    for (qi, q) in keys.iter().enumerate() {
                        for kind in 0..3 {
                            let pat = std::str::from_utf8(q).unwrap();
                            let accept = |k: &Vec<u8>| match kind {
                                0 => k == q,
                                1 => k.starts_with(q),
                                _ => { let mut it = k.iter(); q.iter().all(|c| it.any(|x| x == c)) }
                            };
                            let want: Vec<Vec<u8>> = keys.iter().filter(|k| accept(k) && (if *incl { k.as_slice() <= bound.as_slice() } else { k.as_slice() < bound.as_slice() })).cloned().collect();
                            let r = guard(|| {
                                macro_rules! go { ($a:expr) => {{ let b = set.search($a); let b = if *incl { b.le(&bound) } else { b.lt(&bound) }; b.into_stream().into_bytes() }}; }
                                match kind { 0 => go!(Str::new(pat)), 1 => go!(Str::new(pat).starts_with()), _ => go!(Subsequence::new(pat)) }
                            });
                            ev.eval(None);
                            ev.distinct_extra += 1;
                            ev.count("queries:pruning-automaton-under-long-upper-bound");
                            let d = || J::obj(vec![("automaton", J::s(["Str", "Str.starts_with", "Subsequence"][kind])), ("pattern", J::bytes(q)), ("upper_bound", J::s(&format!("{} x {:?} ({})", len, *fill as char, if *incl { "le" } else { "lt" }))), ("query_index", J::U(qi as u64))]);
                            match r {
                                Ok(got) => if got != want { ev.violate("search-mismatch", format!("pruning automaton under an upper bound of {} bytes: got {} keys, want {}", len, got.len(), want.len()), d()) },
                                Err(pn) => ev.violate("search-panic", format!("search under an upper bound of {} bytes panicked: {}", len, pn), d()),
                            }
                        }
                    }
                }
            }
        }
    }
    ev.note("dfas_total", J::U(ndfas as u64));
    ev.fps.insert(1);
    ev.fps.insert(2);
    finish(
        ctx,
        ev,
        Spec {
            level: "exploration",
            rule: "one evaluation = one (automaton, FST, bounds) query: output keys/values/order compared with {k in model : in range and the independently run DFA accepts k}, reported states compared with the DFA run, every stack frame compared with run(dfa, key_buffer[..depth]) after construction and after every next() (hook H3; a breach is attached as diagnosis to an output violation and otherwise only recorded); automata: ALL DFAs with <=2 states over 2 byte classes x ALL sound hint assignments, sampled 3-state DFAs and random DFAs <=8 states/2-4 classes with randomly weakened hints (hint-independence is decided by the hint-free oracle), shipped automata/combinators to depth 2 incl. Levenshtein (ASCII) against brute-force language semantics, regex-automata dense/sparse DFAs as fst-bin builds them; FSTs: all subsets of {a,b}^<=2, sampled subsets of {a,b}^<=3, nodes of fan-out 33/64/255/256 with bounds diverging at the wide node, words-10000; non-trivial = every query; distinct = (automaton, FST, query) triples, distinct by construction",
            assumptions: vec!["generated automata never implement accept_eof (outside the contract) and their hints are sound by construction (exact sets computed by reachability)".into()],
            floors: vec![
                ("cov:dfas-with-dead-states", 10),
                ("cov:dfas-with-accepting-start", 10),
                ("cov:dfas-with-weakened-hints", 10),
                ("cov:lower-bound-path-pruned-by-can_match", 100),
                ("cov:empty-key-emitted-with-state", 100),
                ("shipped-automaton-queries", 100),
                ("regex-dfa-queries", 4),
            ],
            exhaustive: Some(false),
        },
    )
}
