//! C14 - Traversals and set operations stream with memory independent of FST size.
use crate::allocmeter::{self, Reading};
use crate::ctx::{finish, guard, Ctx, Ev, Spec};
use crate::dfa::Dfa;
use crate::json::J;
use crate::rng::{mix, Rng};
use fst::automaton::Subsequence;
use fst::raw::{Builder, Fst, OpBuilder};
use fst::{IntoStreamer, Map, Streamer};

fn build_map(n: u64, stride: u64, salt: u64) -> Vec<u8> {
    let mut b = Builder::memory();
    let mut buf = [0u8; 10];
    for i in 0..n {
        let mut x = i * stride + salt % stride.max(1);
        for p in (0..10).rev() {
            buf[p] = b'0' + (x % 10) as u8;
            x /= 10;
        }
        b.insert(&buf, mix(i) >> 30).unwrap();
    }
    b.into_inner().unwrap()
}

fn measured<F: FnOnce() -> u64>(f: F) -> (Reading, u64) {
    let sec = allocmeter::start();
    let items = f();
    (sec.stop(), items)
}

pub fn run(ctx: &Ctx) -> i32 {
    let mut ev = Ev::new();
    let scales: Vec<u64> = ctx.tier.pick(vec![10_000, 100_000, 1_000_000], vec![10_000, 100_000, 1_000_000, 10_000_000]);
    let mut table: Vec<J> = vec![];
    // op name -> per-scale (peak, allocs)
    let mut per_op: std::collections::BTreeMap<String, Vec<(u64, Reading, u64)>> = Default::default();
    // accepts keys with an even number of occurrences of one (seed-chosen) digit: always a large, non-trivial subset
    let dfa = {
        let d = b'0' + (ctx.seed % 10) as u8;
        Dfa::new(2, Dfa::class_table(&[d], 2), vec![vec![1, 0], vec![0, 1]], vec![true, false])
    };
    for &n in &scales {
        let a = build_map(n, 3, 0);
        let b = build_map(n, 5, 1);
        let fa = Fst::new(&a[..]).unwrap();
        let fb = Fst::new(&b[..]).unwrap();
        let evens = build_map(n, 2, 0);
        let odds = build_map(n, 2, 1);
        let (fe, fo) = (Fst::new(&evens[..]).unwrap(), Fst::new(&odds[..]).unwrap());
        // HISTORY of this thread before anything is measured at this scale: completed set operations and streams over a key of
        // 512 KiB (the bound of an operation is about the longest key of THAT operation, not of earlier ones)
        if let Err(p) = guard(|| {
            let long_key = vec![b'L'; 512 << 10];
            let mut hb = Builder::memory();
            hb.insert(b"A", 1).unwrap();
            hb.insert(&long_key, 2).unwrap();
            let hbytes = hb.into_inner().unwrap();
            let hf = Fst::new(&hbytes[..]).unwrap();
            let mut u = OpBuilder::new().add(&hf).add(&hf).add(hf.range().ge("A")).union();
            while let Some(_) = u.next() {}
            drop(u);
            let mut x = OpBuilder::new().add(&hf).add(&hf).intersection();
            while let Some(_) = x.next() {}
            drop(x);
            let mut st = hf.stream();
            while let Some(_) = st.next() {}
        }) {
            ev.violate("traversal-panic", format!("history step (operations over a 512 KiB key) panicked: {}", p), J::Null);
        }
        let lo = format!("{:010}", n * 3 / 20);
        let hi = format!("{:010}", n * 3 - n * 3 / 20);
        let long_lo = format!("{}{}", lo, "/".repeat(60));
        let mut ops: Vec<(String, Box<dyn FnOnce() -> u64 + '_>)> = vec![];
        ops.push(("stream".into(), Box::new(|| {
            let mut s = fa.stream();
            let mut c = 0;
            while let Some(_) = s.next() {
                c += 1;
            }
            c
        })));
        ops.push(("range(ge,lt) 90%".into(), Box::new(|| {
            let mut s = fa.range().ge(&lo).lt(&hi).into_stream();
            let mut c = 0;
            while let Some(_) = s.next() {
                c += 1;
            }
            c
        })));
        // a lower bound much longer than any key (and longer than the key buffer's initial capacity)
        ops.push(("range(ge 70-byte bound)".into(), Box::new(|| {
            let mut s = fa.range().ge(&long_lo).into_stream();
            let mut c = 0;
            while let Some(_) = s.next() {
                c += 1;
            }
            c
        })));
        ops.push(("search(dfa).gt(70-byte bound).le".into(), Box::new(|| {
            let mut s = fa.search(&dfa).gt(&long_lo).le(&hi).into_stream();
            let mut c = 0;
            while let Some(_) = s.next() {
                c += 1;
            }
            c
        })));
        ops.push(("search(Subsequence)".into(), Box::new(|| {
            let mut s = fa.search(Subsequence::new("12")).into_stream();
            let mut c = 0;
            while let Some(_) = s.next() {
                c += 1;
            }
            c
        })));
        ops.push(("search(dfa).ge".into(), Box::new(|| {
            let mut s = fa.search(&dfa).ge(&lo).into_stream();
            let mut c = 0;
            while let Some(_) = s.next() {
                c += 1;
            }
            c
        })));
        ops.push(("search_with_state(dfa)".into(), Box::new(|| {
            let mut s = fa.search_with_state(&dfa).into_stream();
            let mut c = 0;
            while let Some(_) = s.next() {
                c += 1;
            }
            c
        })));
        ops.push(("Map::stream + keys + values".into(), Box::new(|| {
            let m = Map::new(&a[..]).unwrap();
            let mut c = 0;
            let mut s = m.stream();
            while let Some(_) = s.next() {
                c += 1;
            }
            let mut s = m.keys();
            while let Some(_) = s.next() {
                c += 1;
            }
            let mut s = m.values();
            while let Some(_) = s.next() {
                c += 1;
            }
            c
        })));
        // a search that matches a handful of keys, collected with the library's own collectors: what they reserve must follow what
        // the search yields, not what the FST stores
        ops.push(("search(two-key automaton) collected by into_byte_vec / into_byte_keys / into_values".into(), Box::new(|| {
            let needle = format!("{:010}", 3 * (n / 2));
            let aut = fst::automaton::Str::new(&needle);
            let v = fa.search(&aut).into_stream().into_byte_vec();
            let k = fa.search(&aut).into_stream().into_byte_keys();
            let w = fa.search(&aut).into_stream().into_values();
            let m = Map::new(&a[..]).unwrap();
            let x = m.search(fst::automaton::Subsequence::new(&needle)).into_stream().into_byte_vec();
            (v.len() + k.len() + w.len() + x.len()) as u64
        })));
        // enumeration through the formatting interface: {:?} of a Map / Set streams every entry into the formatter's writer
        ops.push(("Debug formatting of Map and Set into a discarding writer".into(), Box::new(|| {
            use std::fmt::Write as _;
            struct Discard(u64);
            impl std::fmt::Write for Discard {
                fn write_str(&mut self, s: &str) -> std::fmt::Result {
                    self.0 += s.len() as u64;
                    Ok(())
                }
            }
            let m = Map::new(&a[..]).unwrap();
            let st = fst::Set::new(&a[..]).unwrap();
            let mut d = Discard(0);
            let _ = write!(d, "{:?}", m);
            let _ = write!(d, "{:?}", st);
            d.0
        })));
        for k in [2usize, 3, 5, 8].iter() {
            for op in ["union", "intersection", "difference", "symmetric_difference"].iter() {
                let (fa, fb) = (&fa, &fb);
                let k = *k;
                ops.push((format!("{} k={}", op, k), Box::new(move || {
                    let mut ob = OpBuilder::new();
                    for i in 0..k {
                        if i % 2 == 0 {
                            ob.push(fa);
                        } else {
                            ob.push(fb.range().ge("0"));
                        }
                    }
                    let mut c = 0;
                    macro_rules! drain {
                        ($s:expr) => {{
                            let mut s = $s;
                            while let Some(_) = s.next() {
                                c += 1;
                            }
                        }};
                    }
                    match *op {
                        "union" => drain!(ob.union()),
                        "intersection" => drain!(ob.intersection()),
                        "difference" => drain!(ob.difference()),
                        _ => drain!(ob.symmetric_difference()),
                    }
                    c
                })));
            }
        }
        // the k inputs handed over by collect()/extend() from an iterator that SELECTS them out of a large pool of candidates
        // (a filter over 4,000,000 slots: its upper size hint is the pool, its yield is k): heap follows k, not the pool
        {
            let (fa, fb) = (&fa, &fb);
            let a = &a;
            const POOL: usize = 4_000_000;
            ops.push(("union k=3 collected into raw::OpBuilder from a filter over a pool of 4,000,000 candidates".into(), Box::new(move || {
                let step = POOL / 3;
                let ob: OpBuilder = (0..POOL).filter(|i| i % step == 0 && i / step < 3).map(|i| if i / step == 1 { fb } else { fa }).collect();
                let mut s = ob.union();
                let mut c = 0u64;
                while let Some(_) = s.next() {
                    c += 1;
                }
                c
            })));
            ops.push(("intersection k=2+2 extended into map::OpBuilder / symmetric_difference k=2 collected into set::OpBuilder, both from filters over 4,000,000 candidates".into(), Box::new(move || {
                let m = Map::new(&a[..]).unwrap();
                let st = fst::Set::new(&a[..]).unwrap();
                let step = POOL / 2;
                let mut ob = fst::map::OpBuilder::new().add(&m).add(&m);
                ob.extend((0..POOL).filter(|i| i % step == 0).map(|_| &m));
                let mut s = ob.intersection();
                let mut c = 0u64;
                while let Some(_) = s.next() {
                    c += 1;
                }
                let ob: fst::set::OpBuilder = (0..POOL).filter(|i| i % step == 7).map(|_| &st).collect();
                let mut s = ob.symmetric_difference();
                while let Some(_) = s.next() {
                    c += 1;
                }
                c + 1
            })));
        }
        // operations whose ONE call to next() has to skip over ~N candidate keys before it can answer: intersections of (nearly)
        // disjoint inputs, symmetric differences and differences of identical inputs, and the relations built on them
        {
            let (fa, fe, fo) = (&fa, &fe, &fo);
            macro_rules! count {
                ($s:expr) => {{
                    let mut s = $s;
                    let mut c = 0u64;
                    while let Some(_) = s.next() {
                        c += 1;
                    }
                    c
                }};
            }
            ops.push(("intersection of disjoint inputs k=2".into(), Box::new(move || count!(OpBuilder::new().add(fe).add(fo).intersection()))));
            ops.push(("intersection of disjoint inputs + a third k=3".into(), Box::new(move || count!(OpBuilder::new().add(fe).add(fa).add(fo).intersection()))));
            ops.push(("intersection where one input ends early k=2".into(), Box::new(move || count!(OpBuilder::new().add(fe).add(fo.range().lt("0000000100")).intersection()))));
            ops.push(("symmetric_difference of identical inputs k=2".into(), Box::new(move || count!(OpBuilder::new().add(fa).add(fa).symmetric_difference()))));
            ops.push(("symmetric_difference of identical inputs k=4".into(), Box::new(move || count!(OpBuilder::new().add(fa).add(fa).add(fa.range().ge("0")).add(fa).symmetric_difference()))));
            ops.push(("difference of identical inputs k=2".into(), Box::new(move || count!(OpBuilder::new().add(fa).add(fa).difference()))));
            ops.push(("difference against interleaved inputs k=3".into(), Box::new(move || count!(OpBuilder::new().add(fe).add(fo).add(fa).difference()))));
            ops.push(("relation is_disjoint(evens, odds)".into(), Box::new(move || fe.is_disjoint(fo) as u64 + 1)));
            ops.push(("relation is_subset / is_superset of itself".into(), Box::new(move || fa.is_subset(fa) as u64 + fa.is_superset(fa) as u64 + 1)));
            ops.push(("relation is_subset(evens, odds) / is_superset".into(), Box::new(move || fe.is_subset(fo) as u64 + fe.is_superset(fo) as u64 + 1)));
        }
        for (name, f) in ops {
            ev.eval(Some(crate::rng::fnv_u64(crate::rng::fnv(name.as_bytes()), n)));
            match guard(|| measured(f)) {
                Err(p) => ev.violate("traversal-panic", format!("{} at N={}: {}", name, n, p), J::s(name.clone())),
                Ok((r, items)) => {
                    table.push(J::obj(vec![("op", J::s(name.clone())), ("n_keys", J::U(n)), ("items", J::U(items)), ("peak_live_bytes", J::U(r.peak)), ("allocations", J::U(r.allocs))]));
                    ev.count("measurements");
                    per_op.entry(name).or_default().push((n, r, items));
                }
            }
        }
        // opening over borrowed bytes and point lookups allocate nothing
        let mut rng = Rng::new(ctx.seed, n);
        let probes: Vec<[u8; 10]> = (0..100_000)
            .map(|_| {
                let mut x = rng.below(n * 3 + 10);
                let mut buf = [0u8; 10];
                for p in (0..10).rev() {
                    buf[p] = b'0' + (x % 10) as u8;
                    x /= 10;
                }
                buf
            })
            .collect();
        let path = ctx.root.join("target").join("tmp");
        let _ = std::fs::create_dir_all(&path);
        let file = path.join(format!("c14-{}.fst", n));
        std::fs::write(&file, &a).unwrap();
        let fh = std::fs::File::open(&file).unwrap();
        let (r, hits) = measured(|| {
            let f = Fst::new(&a[..]).unwrap();
            let m = Map::new(&a[..]).unwrap();
            let mut hits = 0;
            for p in &probes {
                if f.get(p).is_some() {
                    hits += 1;
                }
                if f.contains_key(&p[..7]) {
                    hits += 1;
                }
                if m.get(p).is_some() != m.contains_key(p) {
                    hits += 1_000_000;
                }
            }
            hits
        });
        ev.eval(Some(crate::rng::fnv_u64(0x0be4, n)));
        ev.count("zero-alloc-sections");
        table.push(J::obj(vec![("op", J::s("Fst::new(&[u8]) + Map::new + 100000 get/contains_key")), ("n_keys", J::U(n)), ("items", J::U(hits)), ("peak_live_bytes", J::U(r.peak)), ("allocations", J::U(r.allocs))]));
        if r.allocs != 0 {
            ev.violate("lookup-allocates", format!("opening over borrowed bytes + 100000 point lookups performed {} allocations (peak {} bytes) at N={}", r.allocs, r.peak, n), J::U(n));
        }
        // the same on keys over all 256 byte values (uncommon input bytes, explicit-input nodes)
        {
            let mut r = Rng::new(ctx.seed ^ n, 0xb17e);
            let mut keys: Vec<Vec<u8>> = (0..(n as usize).min(200_000)).map(|_| (0..6).map(|_| r.next() as u8).collect()).collect();
            keys.sort();
            keys.dedup();
            let mut b = Builder::memory();
            for (i, k) in keys.iter().enumerate() {
                b.insert(k, i as u64).unwrap();
            }
            let bytes = b.into_inner().unwrap();
            let probes2: Vec<Vec<u8>> = (0..50_000).map(|i| if i % 2 == 0 { keys[r.usize(keys.len())].clone() } else { (0..6).map(|_| r.next() as u8).collect() }).collect();
            let (r2, hits3) = measured(|| {
                let f = Fst::new(&bytes[..]).unwrap();
                let mut h = 0;
                for p in &probes2 {
                    if f.get(p).is_some() {
                        h += 1;
                    }
                    if f.contains_key(&p[..3]) {
                        h += 1;
                    }
                }
                h
            });
            ev.eval(Some(crate::rng::fnv_u64(0xb17e, n)));
            ev.count("zero-alloc-sections");
            table.push(J::obj(vec![("op", J::s("Fst::new(&[u8]) + 50000 get/contains_key on random 6-byte binary keys")), ("n_keys", J::U(keys.len() as u64)), ("items", J::U(hits3)), ("peak_live_bytes", J::U(r2.peak)), ("allocations", J::U(r2.allocs))]));
            if r2.allocs != 0 {
                ev.violate("lookup-allocates", format!("50000 point lookups on binary keys performed {} allocations (peak {} bytes) on an FST of {} keys", r2.allocs, r2.peak, keys.len()), J::U(n));
            }
        }
        // opening version-1 and version-2 files over borrowed bytes (reference-encoded), plus lookups
        if n <= 100_000 {
            let mut r = Rng::new(ctx.seed, 0x01d + n);
            let keys = crate::gen::random_keys(&mut r, 3000, b"abcdefghijklmnopqrstuvwxyz0123456789", 6);
            let kv = crate::gen::assign(keys, 1, &mut r);
            for ver in 1..=2u64 {
                let old = crate::refenc::encode(&kv, ver, 0, 1, &mut r);
                let (r3, h) = measured(|| {
                    let f = Fst::new(&old[..]).unwrap();
                    let m = Map::new(&old[..]).unwrap();
                    let mut h = f.len() as u64;
                    for (k, _) in kv.iter().step_by(7) {
                        if f.get(k).is_some() && m.contains_key(k) {
                            h += 1;
                        }
                    }
                    h
                });
                ev.eval(Some(crate::rng::fnv_u64(0x01d + ver, n)));
                ev.count("zero-alloc-sections");
                table.push(J::obj(vec![("op", J::s(format!("Fst::new + Map::new over a borrowed version-{} file + lookups", ver))), ("n_keys", J::U(kv.len() as u64)), ("items", J::U(h)), ("peak_live_bytes", J::U(r3.peak)), ("allocations", J::U(r3.allocs))]));
                if r3.allocs != 0 {
                    ev.violate("lookup-allocates", format!("opening a version-{} file over borrowed bytes (+ lookups) performed {} allocations", ver, r3.allocs), J::U(ver));
                }
            }
        }
        // many bounded scans on one thread: nothing may stay behind (a traversal owns its buffers only while it lives)
        {
            let scans = |count: usize| {
                let mut rr = Rng::new(ctx.seed, 0x5ca9);
                let sec = allocmeter::start();
                let mut items = 0u64;
                for i in 0..count {
                    let k = &probes[rr.usize(probes.len())];
                    let mut s = match i % 3 {
                        0 => fa.range().ge(k).le(k).into_stream(),
                        1 => fa.range().lt(k).into_stream(),
                        _ => fa.range().gt(k).le(&hi).into_stream(),
                    };
                    for _ in 0..3 {
                        if s.next().is_some() {
                            items += 1;
                        }
                    }
                }
                (sec.stop(), items)
            };
            let (few, _) = scans(500);
            let (many, items) = scans(20_000);
            ev.eval(Some(crate::rng::fnv_u64(0x5ca9, n)));
            ev.count("many-scans-sections");
            table.push(J::obj(vec![("op", J::s("20000 bounded range scans (3 items each)")), ("n_keys", J::U(n)), ("items", J::U(items)), ("peak_live_bytes", J::U(many.peak)), ("net_live_bytes_after", J::I(many.net)), ("net_after_500_scans", J::I(few.net))]));
            if many.net > few.net + 4096 {
                ev.violate("retained-after-traversals", format!("{} bytes stay live after 20000 bounded range scans (after 500 scans: {}): traversals leave memory behind", many.net, few.net), J::U(n));
            }
        }
        let mm = unsafe { memmap2::Mmap::map(&fh).unwrap() };
        let (r, hits2) = measured(|| {
            let f = Fst::new(mm).unwrap();
            let mut hits = 0;
            for p in probes.iter().take(20_000) {
                if f.get(p).is_some() {
                    hits += 1;
                }
            }
            hits
        });
        ev.eval(Some(crate::rng::fnv_u64(0x33a9, n)));
        ev.count("zero-alloc-sections");
        table.push(J::obj(vec![("op", J::s("Fst::new(Mmap) + 20000 get")), ("n_keys", J::U(n)), ("items", J::U(hits2)), ("peak_live_bytes", J::U(r.peak)), ("allocations", J::U(r.allocs))]));
        if r.allocs != 0 {
            ev.violate("lookup-allocates", format!("opening a memory map + 20000 point lookups performed {} allocations at N={}", r.allocs, n), J::U(n));
        }
        let _ = std::fs::remove_file(&file);
        if hits == 0 {
            ev.count("harness-note:no-probe-hit");
        }
    }
    // one FST well beyond 64 MiB (an implementation may treat big inputs differently): opening it over borrowed bytes and over a
    // memory map, point lookups, and the first items of a stream
    {
        let n: u64 = 7_000_000;
        let big = build_map(n, 3, 0);
        ev.note("big_fst_bytes", J::U(big.len() as u64));
        let path = ctx.root.join("target").join("tmp");
        let _ = std::fs::create_dir_all(&path);
        let file = path.join("c14-big.fst");
        std::fs::write(&file, &big).unwrap();
        let fh = std::fs::File::open(&file).unwrap();
        let mm = unsafe { memmap2::Mmap::map(&fh).unwrap() };
        let mut rng = Rng::new(ctx.seed, 0xb16);
        let probes: Vec<[u8; 10]> = (0..20_000)
            .map(|_| {
                let mut x = rng.below(n * 3 + 10);
                let mut buf = [0u8; 10];
                for p in (0..10).rev() {
                    buf[p] = b'0' + (x % 10) as u8;
                    x /= 10;
                }
                buf
            })
            .collect();
        let (r, hits) = measured(|| {
            let f = Fst::new(&big[..]).unwrap();
            let g = Fst::new(&mm[..]).unwrap();
            let m = Map::new(&big[..]).unwrap();
            let mut hits = 0u64;
            for p in &probes {
                if f.get(p).is_some() {
                    hits += 1;
                }
                if g.contains_key(p) {
                    hits += 1;
                }
                if m.get(&p[..6]).is_some() {
                    hits += 1;
                }
            }
            hits
        });
        ev.eval(Some(crate::rng::fnv_u64(0xb16f, n)));
        ev.count("zero-alloc-sections");
        ev.count("zero-alloc-sections:fst-larger-than-64-MiB");
        table.push(J::obj(vec![("op", J::s(format!("open an FST of {} bytes over &[u8] and Mmap + 60000 lookups", big.len()))), ("n_keys", J::U(n)), ("items", J::U(hits)), ("peak_live_bytes", J::U(r.peak)), ("allocations", J::U(r.allocs))]));
        if r.allocs != 0 {
            ev.violate("lookup-allocates", format!("opening an FST of {} bytes over borrowed / mapped bytes + 60000 point lookups performed {} allocations ({} bytes at the peak)", big.len(), r.allocs, r.peak), J::U(n));
        }
        drop(mm);
        let _ = std::fs::remove_file(&file);
    }
    // judge: absolute a-priori bounds and independence from N
    for (name, rows) in &per_op {
        let k = name.split("k=").nth(1).and_then(|s| s.parse::<u64>().ok()).unwrap_or(0);
        let bound = 256 * 1024 + k * 64 * 1024; // a generous constant for L = 10; linear growth is caught by the scale comparison below, not by this
        for (n, r, items) in rows {
            if r.peak > bound {
                ev.violate("above-constant-bound", format!("{} at N={}: peak live heap {} bytes exceeds {} bytes", name, n, r.peak, bound), J::s(name.clone()));
            }
            if *items == 0 && !(name.starts_with("intersection") || name.starts_with("difference") || name.starts_with("symmetric")) {
                ev.count("harness-note:operation-yielded-nothing");
            }
        }
        let (n0, r0, _) = &rows[0];
        for (n, r, _) in &rows[1..] {
            ev.count("scale-pairs-compared");
            if r.peak > r0.peak + r0.peak / 4 + 256 {
                ev.violate("grows-with-n", format!("{}: peak live heap {} bytes at N={} but {} bytes at N={}", name, r0.peak, n0, r.peak, n), J::s(name.clone()));
            }
            // the statement bounds the HEAP HELD, not the number of allocator calls: an implementation that allocates and frees
            // a little per item stays within it. A growing allocation count is therefore recorded, not judged.
            if r.allocs > r0.allocs + 4 {
                ev.count("evidence:allocation-count-grows-with-n(recorded, not judged)");
                let _ = (n0, n);
            }
        }
    }
    ev.sample(table.get(0).cloned().unwrap_or(J::Null));
    ev.sample(table.iter().find(|t| t.get("op").and_then(|o| o.as_str()).map(|s| s.starts_with("union k=3")).unwrap_or(false)).cloned().unwrap_or(J::Null));
    ev.note("measurements", J::A(table));
    finish(
        ctx,
        ev,
        Spec {
            level: "exploration",
            rule: "one evaluation = one complete traversal (or lookup section) of an FST with N 10-byte keys under the counting global allocator (single-threaded): full stream, range over 90%, range/search with a 70-byte lower bound, search(Subsequence), search(dfa) with lower bound, search_with_state, Map stream/keys/values, and union/intersection/difference/symmetric_difference over k in {2,3,5,8} streams (FSTs and range streams); peak live heap must stay under the generous constant 256 KiB + k*64 KiB, must not exceed the N=10^4 value by more than 25% + 256 B at N=10^5, 10^6 (thorough 10^7), (the NUMBER of allocations is recorded; a growing count is evidence, not a verdict, since the statement bounds the heap held); also measured: {:?} formatting of a Map and a Set into a discarding writer, and operations whose single next() call skips ~N candidates (disjoint intersections, cancelling differences, Set relations); Fst::new over &[u8], Map::new, Fst::new over a memory map and 10^5 get/contains_key probes (hits and misses; decimal keys and random binary keys over all 256 byte values) must perform exactly 0 allocations, as must opening version-1 and version-2 files over borrowed bytes; 20000 bounded range scans on one thread must leave no more live heap behind than 500 do; non-trivial = every measurement; distinct = (operation, N)",
            assumptions: vec!["the restated, decidable claim is bounded scales, not 'for all N'".into(), "constants are fixed a priori from the code's initial capacities with generous slack, not fitted".into()],
            floors: vec![("measurements", 60), ("scale-pairs-compared", 40), ("zero-alloc-sections", 12), ("zero-alloc-sections:fst-larger-than-64-MiB", 1), ("many-scans-sections", 3)],
            exhaustive: Some(false),
        },
    )
}
