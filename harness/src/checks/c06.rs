//! C06 - Builders enforce the ordering contract; rejected inserts leave no trace.
//! Oracle: a 10-line sequential model (last accepted key + accepted history).
use crate::build::{VecMapStream, VecSetStream, VecStream};
use crate::ctx::{finish, guard, Ctx, Ev, Spec};
use crate::json::J;
use crate::rng::Rng;
use fst::raw::{self, Builder, Fst};
use fst::{Map, MapBuilder, Set, SetBuilder};

#[derive(Clone, Debug, PartialEq)]
pub enum Verdict {
    Accept,
    Dup(Vec<u8>),
    Ooo(Vec<u8>, Vec<u8>),
}

pub struct Model {
    set_mode: bool,
    last: Option<Vec<u8>>,
    pub accepted: Vec<(Vec<u8>, u64)>,
}
impl Model {
    pub fn new(set_mode: bool) -> Model {
        Model { set_mode, last: None, accepted: vec![] }
    }
    pub fn step(&mut self, k: &[u8], v: u64) -> Verdict {
        if let Some(last) = &self.last {
            if k == &last[..] {
                if self.set_mode {
                    return Verdict::Accept; // repeat is a no-op
                }
                return Verdict::Dup(k.to_vec());
            }
            if k < &last[..] {
                return Verdict::Ooo(last.clone(), k.to_vec());
            }
        }
        self.last = Some(k.to_vec());
        self.accepted.push((k.to_vec(), if self.set_mode { 0 } else { v }));
        Verdict::Accept
    }
}

fn classify(r: &Result<(), fst::Error>) -> Result<Verdict, String> {
    match r {
        Ok(()) => Ok(Verdict::Accept),
        Err(fst::Error::Fst(raw::Error::DuplicateKey { got })) => Ok(Verdict::Dup(got.clone())),
        Err(fst::Error::Fst(raw::Error::OutOfOrder { previous, got })) => Ok(Verdict::Ooo(previous.clone(), got.clone())),
        Err(e) => Err(format!("unexpected error kind: {}", e)),
    }
}

#[derive(Clone, Copy, Debug, PartialEq)]
enum Fe {
    MapBuilder,
    SetBuilder,
    RawInsert,
    RawAdd,
}
const FES: [Fe; 4] = [Fe::MapBuilder, Fe::SetBuilder, Fe::RawInsert, Fe::RawAdd];

fn seq_json(fe: &str, seq: &[(Vec<u8>, u64)]) -> J {
    J::obj(vec![("front_end", J::s(fe)), ("calls", J::A(seq.iter().take(40).map(|(k, v)| J::A(vec![J::bytes(k), J::U(*v)])).collect())), ("ncalls", J::U(seq.len() as u64))])
}

/// drive one front end call by call, comparing every result with the model, then inspect the FST
fn stepwise(fe: Fe, seq: &[(Vec<u8>, u64)], ev: &mut Ev) {
    let set_mode = matches!(fe, Fe::SetBuilder | Fe::RawAdd);
    let mut model = Model::new(set_mode);
    let name = format!("{:?}", fe);
    enum B {
        M(MapBuilder<Vec<u8>>),
        S(SetBuilder<Vec<u8>>),
        R(Builder<Vec<u8>>),
    }
    let mut b = match fe {
        Fe::MapBuilder => B::M(MapBuilder::memory()),
        Fe::SetBuilder => B::S(SetBuilder::memory()),
        _ => B::R(Builder::memory()),
    };
    for (i, (k, v)) in seq.iter().enumerate() {
        let before = match &b {
            B::M(x) => x.bytes_written(),
            B::S(x) => x.bytes_written(),
            B::R(x) => x.bytes_written(),
        };
        let r = match &mut b {
            B::M(x) => x.insert(k, *v),
            B::S(x) => x.insert(k),
            B::R(x) => {
                if fe == Fe::RawAdd {
                    x.add(k)
                } else {
                    x.insert(k, *v)
                }
            }
        };
        let after = match &b {
            B::M(x) => x.bytes_written(),
            B::S(x) => x.bytes_written(),
            B::R(x) => x.bytes_written(),
        };
        let want = model.step(k, *v);
        ev.eval(None);
        match classify(&r) {
            Err(e) => {
                ev.violate("wrong-error", format!("{} call {} ({}): {}", name, i, crate::json::show_bytes(k), e), seq_json(&name, seq));
                return;
            }
            Ok(got) => {
                if got != want {
                    ev.violate("contract", format!("{} call {} insert({}): got {:?}, contract says {:?}", name, i, crate::json::show_bytes(k), got, want), seq_json(&name, seq));
                    return;
                }
                match got {
                    Verdict::Accept => ev.count("calls:accepted"),
                    Verdict::Dup(_) => ev.count("calls:rejected-duplicate"),
                    Verdict::Ooo(..) => ev.count("calls:rejected-out-of-order"),
                }
                if got != Verdict::Accept && before != after {
                    ev.violate("rejected-call-wrote-bytes", format!("{} call {}: a rejected insert changed bytes_written {} -> {}", name, i, before, after), seq_json(&name, seq));
                    return;
                }
            }
        }
    }
    let bytes = match b {
        B::M(x) => x.into_inner(),
        B::S(x) => x.into_inner(),
        B::R(x) => x.into_inner(),
    };
    let bytes = match bytes {
        Ok(b) => b,
        Err(e) => {
            ev.violate("finish-failed", format!("{}: finishing after the sequence failed: {}", name, e), seq_json(&name, seq));
            return;
        }
    };
    inspect(&name, &bytes, &model.accepted, seq, ev);
}

fn inspect(name: &str, bytes: &[u8], accepted: &[(Vec<u8>, u64)], seq: &[(Vec<u8>, u64)], ev: &mut Ev) {
    match Fst::new(bytes) {
        Err(e) => ev.violate("finish-failed", format!("{}: result does not open: {}", name, e), seq_json(name, seq)),
        Ok(f) => {
            let got = f.stream().into_byte_vec();
            if got != accepted || f.len() != accepted.len() {
                ev.violate(
                    "content",
                    format!("{}: finished FST holds {:?} (len {}), accepted history is {:?}", name, got.iter().map(|(k, v)| (crate::json::show_bytes(k), *v)).collect::<Vec<_>>(), f.len(), accepted.iter().map(|(k, v)| (crate::json::show_bytes(k), *v)).collect::<Vec<_>>()),
                    seq_json(name, seq),
                );
            }
        }
    }
}

/// bulk front ends: must stop at the first rejected item with that item's error
fn bulk(which: usize, seq: &[(Vec<u8>, u64)], ev: &mut Ev) {
    let set_mode = matches!(which % 10, 1 | 3 | 5 | 7);
    let mut model = Model::new(set_mode);
    let mut first_err: Option<Verdict> = None;
    for (k, v) in seq {
        let v = model.step(k, *v);
        if v != Verdict::Accept {
            first_err = Some(v);
            break;
        }
    }
    // in set mode a repeat is a no-op and later items continue; model.accepted covers that
    let want_err = first_err;
    let names = ["MapBuilder::extend_iter", "SetBuilder::extend_iter", "MapBuilder::extend_stream", "SetBuilder::extend_stream", "Map::from_iter", "Set::from_iter", "raw::Builder::extend_iter", "raw::Fst::from_iter_set", "raw::Builder::extend_stream", "raw::Fst::from_iter_map"];
    let name = names[which % names.len()];
    ev.eval(None);
    ev.count("bulk-calls");
    // streams must be strictly increasing to be legal inputs of extend_stream? No: the builder is the
    // one enforcing order, so any sequence may be streamed.
    let keys_only: Vec<(Vec<u8>, u64)> = seq.iter().map(|(k, _)| (k.clone(), 0)).collect();
    let (res, bytes): (Result<(), fst::Error>, Option<Vec<u8>>) = match which % names.len() {
        0 => {
            let mut b = MapBuilder::memory();
            let r = b.extend_iter(seq.iter().map(|(k, v)| (k, *v)));
            (r, b.into_inner().ok())
        }
        1 => {
            let mut b = SetBuilder::memory();
            let r = b.extend_iter(seq.iter().map(|(k, _)| k));
            (r, b.into_inner().ok())
        }
        2 => {
            let mut b = MapBuilder::memory();
            let r = b.extend_stream(VecMapStream(VecStream::new(seq)));
            (r, b.into_inner().ok())
        }
        3 => {
            let mut b = SetBuilder::memory();
            let r = b.extend_stream(VecSetStream(VecStream::new(&keys_only)));
            (r, b.into_inner().ok())
        }
        4 => match Map::from_iter(seq.iter().map(|(k, v)| (k, *v))) {
            Ok(m) => (Ok(()), Some(m.into_fst().into_inner())),
            Err(e) => (Err(e), None),
        },
        5 => match Set::from_iter(seq.iter().map(|(k, _)| k)) {
            Ok(m) => (Ok(()), Some(m.into_fst().into_inner())),
            Err(e) => (Err(e), None),
        },
        6 => {
            let mut b = Builder::memory();
            let r = b.extend_iter(seq.iter().map(|(k, v)| (k, raw::Output::new(*v))));
            (r, b.into_inner().ok())
        }
        7 => match Fst::from_iter_set(seq.iter().map(|(k, _)| k)) {
            Ok(m) => (Ok(()), Some(m.into_inner())),
            Err(e) => (Err(e), None),
        },
        8 => {
            let mut b = Builder::memory();
            let r = b.extend_stream(VecStream::new(seq));
            (r, b.into_inner().ok())
        }
        _ => match Fst::from_iter_map(seq.iter().map(|(k, v)| (k, *v))) {
            Ok(m) => (Ok(()), Some(m.into_inner())),
            Err(e) => (Err(e), None),
        },
    };
    let got = match classify(&res) {
        Ok(v) => v,
        Err(e) => {
            ev.violate("wrong-error", format!("{}: {}", name, e), seq_json(name, seq));
            return;
        }
    };
    let want = want_err.clone().unwrap_or(Verdict::Accept);
    if got != want {
        ev.violate("bulk-contract", format!("{}: returned {:?}, the first offending item demands {:?}", name, got, want), seq_json(name, seq));
        return;
    }
    if want != Verdict::Accept {
        ev.count("bulk-calls:stopped-at-first-rejection");
    }
    // from_iter returns no FST on error; extend_* builders are finished and must hold the items before the offender
    if let Some(bytes) = bytes {
        inspect(name, &bytes, &model.accepted, seq, ev);
    }
}

/// ONE builder driven by a mixture of single inserts and bulk calls (extend_iter / extend_stream over a chunk of the sequence): a bulk
/// call stops at its first rejected item with that item's error, items before it are kept, and the builder then "behaves as if the
/// call never happened" for the rejected item - i.e. later calls are judged against the last key that was really accepted.
/// `cuts` bit i set = a new call starts after item i; `kinds` (2 bits per call) selects the entry point.
fn session(fe: usize, seq: &[(Vec<u8>, u64)], cuts: u64, kinds: u64, ev: &mut Ev) {
    let set_mode = fe == 1;
    let name = ["MapBuilder session", "SetBuilder session", "raw::Builder session"][fe];
    let mut model = Model::new(set_mode);
    enum B {
        M(MapBuilder<Vec<u8>>),
        S(SetBuilder<Vec<u8>>),
        R(Builder<Vec<u8>>),
    }
    let mut b = match fe {
        0 => B::M(MapBuilder::memory()),
        1 => B::S(SetBuilder::memory()),
        _ => B::R(Builder::memory()),
    };
    let (mut i, mut opno) = (0usize, 0u32);
    while i < seq.len() {
        let mut j = i + 1;
        while j < seq.len() && (cuts >> ((j - 1) % 64)) & 1 == 0 {
            j += 1;
        }
        let chunk = &seq[i..j];
        let kind = (kinds >> ((2 * opno) % 64)) & 3;
        let keys_only: Vec<(Vec<u8>, u64)> = chunk.iter().map(|(k, _)| (k.clone(), 0)).collect();
        let single = chunk.len() == 1 && kind == 0;
        let res: Result<(), fst::Error> = match &mut b {
            B::M(x) => {
                if single {
                    x.insert(&chunk[0].0, chunk[0].1)
                } else if kind == 2 {
                    x.extend_stream(VecMapStream(VecStream::new(chunk)))
                } else {
                    x.extend_iter(chunk.iter().map(|(k, v)| (k, *v)))
                }
            }
            B::S(x) => {
                if single {
                    x.insert(&chunk[0].0)
                } else if kind == 2 {
                    x.extend_stream(VecSetStream(VecStream::new(&keys_only)))
                } else {
                    x.extend_iter(chunk.iter().map(|(k, _)| k))
                }
            }
            B::R(x) => {
                if single {
                    x.insert(&chunk[0].0, chunk[0].1)
                } else if kind == 2 {
                    x.extend_stream(VecStream::new(chunk))
                } else {
                    x.extend_iter(chunk.iter().map(|(k, v)| (k, raw::Output::new(*v))))
                }
            }
        };
        let mut want = Verdict::Accept;
        for (k, v) in chunk {
            let vd = model.step(k, *v);
            if vd != Verdict::Accept {
                want = vd;
                break;
            }
        }
        ev.eval(None);
        ev.count(if single { "session-calls:single" } else { "session-calls:bulk" });
        match classify(&res) {
            Err(e) => {
                ev.violate("wrong-error", format!("{} call {}: {}", name, opno, e), seq_json(name, seq));
                return;
            }
            Ok(got) => {
                if got != want {
                    ev.violate(if single { "contract" } else { "bulk-contract" }, format!("{} call {} ({} item(s) starting at item {}, cuts {:#b}): got {:?}, contract says {:?}", name, opno, chunk.len(), i, cuts, got, want), seq_json(name, seq));
                    return;
                }
                if !single && want != Verdict::Accept {
                    ev.count("session-calls:bulk-stopped-at-a-rejection-and-builder-used-on");
                }
            }
        }
        i = j;
        opno += 1;
    }
    let bytes = match b {
        B::M(x) => x.into_inner(),
        B::S(x) => x.into_inner(),
        B::R(x) => x.into_inner(),
    };
    match bytes {
        Ok(bytes) => inspect(name, &bytes, &model.accepted, seq, ev),
        Err(e) => ev.violate("finish-failed", format!("{}: finishing after the sequence failed: {}", name, e), seq_json(name, seq)),
    }
}

pub fn run(ctx: &Ctx) -> i32 {
    let keys: Vec<Vec<u8>> = vec![b"".to_vec(), b"a".to_vec(), b"ab".to_vec(), b"b".to_vec(), b"ba".to_vec(), b"c".to_vec()];
    // all call sequences of length <= 5 over 6 keys
    let mut seqs: Vec<Vec<usize>> = vec![vec![]];
    let mut layer: Vec<Vec<usize>> = vec![vec![]];
    for _ in 0..ctx.tier.pick(6, 7) {
        let mut next = vec![];
        for s in &layer {
            for k in 0..keys.len() {
                let mut t = s.clone();
                t.push(k);
                next.push(t);
            }
        }
        seqs.extend(next.iter().cloned());
        layer = next;
    }
    let nseq = seqs.len();
    let ev = ctx.par(|shard, n, ev| {
        for (si, s) in seqs.iter().enumerate() {
            if si % n != shard {
                continue;
            }
            let seq: Vec<(Vec<u8>, u64)> = s.iter().enumerate().map(|(i, &k)| (keys[k].clone(), (i as u64 + 1) * 10)).collect();
            let before = ev.evaluations;
            for fe in FES.iter() {
                if let Err(p) = guard(|| stepwise(*fe, &seq, ev)) {
                    ev.violate("builder-panic", format!("{:?} panicked: {}", fe, p), seq_json(&format!("{:?}", fe), &seq));
                }
            }
            for w in 0..10 {
                if let Err(p) = guard(|| bulk(w, &seq, ev)) {
                    ev.violate("builder-panic", format!("bulk front end {} panicked: {}", w, p), seq_json("bulk", &seq));
                }
            }
            // the same sequence as a mixture of single and bulk calls on ONE builder: every segmentation for sequences <= 5
            if seq.len() >= 2 && seq.len() <= 5 {
                for cuts in 0..(1u64 << (seq.len() - 1)) {
                    for fe in 0..3 {
                        let kinds = crate::rng::fnv_u64(si as u64, cuts * 3 + fe as u64);
                        if let Err(p) = guard(|| session(fe, &seq, cuts, kinds, ev)) {
                            ev.violate("builder-panic", format!("session on front end {} panicked: {}", fe, p), seq_json("session", &seq));
                        }
                    }
                }
            } else if seq.len() > 5 {
                let cuts = crate::rng::fnv_u64(0x5e55, si as u64);
                if let Err(p) = guard(|| session(si % 3, &seq, cuts, cuts >> 7, ev)) {
                    ev.violate("builder-panic", format!("session panicked: {}", p), seq_json("session", &seq));
                }
            }
            ev.distinct_extra += ev.evaluations - before;
            ev.count("sequences:exhaustive");
            if si % 2503 == 77 {
                ev.sample(seq_json("all of MapBuilder/SetBuilder/raw insert/raw add + 10 bulk front ends", &seq));
            }
        }
        // keys longer than 64 KiB: the error payloads must still carry the complete keys
        if shard == 0 {
            let big_a: Vec<u8> = (0..70_000).map(|i| b'a' + (i % 7) as u8).collect();
            let mut big_b = big_a.clone();
            big_b[69_990] = b'A'; // smaller than big_a, differs late
            let mut big_c = big_a.clone();
            big_c.push(b'!');
            let seq: Vec<(Vec<u8>, u64)> = vec![(big_a.clone(), 1), (big_a.clone(), 2), (big_b.clone(), 3), (big_c.clone(), 4), (big_c.clone(), 5), (big_a.clone(), 6)];
            for fe in FES.iter() {
                if let Err(p) = guard(|| stepwise(*fe, &seq, ev)) {
                    ev.violate("builder-panic", format!("{:?} panicked: {}", fe, p), seq_json(&format!("{:?}", fe), &seq));
                }
            }
            for w in 0..10 {
                if let Err(p) = guard(|| bulk(w, &seq, ev)) {
                    ev.violate("builder-panic", format!("bulk front end {} panicked: {}", w, p), seq_json("bulk", &seq));
                }
            }
            ev.count("sequences:70000-byte-keys");
            // the same with keys of 128 KiB .. 1 MiB that are NOT the first key of their builder, differing from the key
            // before them only near their end (what a builder keeps of the last key must be all of it)
            for &len in [131_072usize + 40, 300_000, (1 << 20) + 5].iter() {
                let big_a: Vec<u8> = (0..len).map(|i| b'a' + (i % 7) as u8).collect();
                let mut big_b = big_a.clone();
                big_b[len - 10] = b'A';
                let mut big_c = big_a.clone();
                big_c.push(b'!');
                let seq: Vec<(Vec<u8>, u64)> = vec![(b"0".to_vec(), 9), (big_a.clone(), 1), (big_a.clone(), 2), (big_b.clone(), 3), (big_c.clone(), 4), (big_c.clone(), 5), (big_a.clone(), 6), (big_b.clone(), 7)];
                for fe in FES.iter() {
                    if let Err(p) = guard(|| stepwise(*fe, &seq, ev)) {
                        ev.violate("builder-panic", format!("{:?} panicked: {}", fe, p), J::s(&format!("first key \"0\", then keys of {} bytes", len)));
                    }
                }
                for w in 0..10 {
                    if let Err(p) = guard(|| bulk(w, &seq, ev)) {
                        ev.violate("builder-panic", format!("bulk front end {} panicked: {}", w, p), J::s(&format!("first key \"0\", then keys of {} bytes", len)));
                    }
                }
                ev.count("sequences:non-first-keys-of-128KiB-to-1MiB");
            }
            // from_iter / extend_iter on a lazy iterator that CLAIMS an astronomical exact length: it must stop at the
            // first rejected item with that item's error (no pre-allocation from the size hint, no panic)
            let r = guard(|| {
                let m = Map::from_iter((0..usize::MAX).map(|i| (if i == 0 { "b" } else { "a" }, i as u64)));
                let s = Set::from_iter((0..usize::MAX).map(|i| if i < 2 { "k" } else { "a" }));
                let mut mb = MapBuilder::memory();
                let e = mb.extend_iter((0..usize::MAX).map(|i| (if i < 1 { "x" } else { "x" }, i as u64)));
                (m.map(|_| ()), s.map(|_| ()), e)
            });
            ev.eval(None);
            ev.count("bulk-calls:astronomical-size-hint");
            match r {
                Err(p) => ev.violate("builder-panic", format!("from_iter/extend_iter on a lazy iterator with an astronomical exact size hint panicked instead of stopping at the first rejected item: {}", p), J::Null),
                Ok((m, s, e)) => {
                    let want_m = Verdict::Ooo(b"b".to_vec(), b"a".to_vec());
                    let want_s = Verdict::Ooo(b"k".to_vec(), b"a".to_vec());
                    let want_e = Verdict::Dup(b"x".to_vec());
                    for (name, got, want) in [("Map::from_iter", classify(&m), want_m), ("Set::from_iter", classify(&s), want_s), ("MapBuilder::extend_iter", classify(&e), want_e)].iter() {
                        if got.as_ref().ok() != Some(want) {
                            ev.violate("bulk-contract", format!("{} on an endless-looking iterator returned {:?}, the first offending item demands {:?}", name, got, want), J::Null);
                        }
                    }
                }
            }
        }
        // random long sequences with error rates 0..50%
        let nrand = ctx.tier.pick(600, 20_000);
        for i in 0..nrand {
            if i % n != shard {
                continue;
            }
            let mut r = Rng::new(ctx.seed, 0xC06 + i as u64);
            let len = match i % 4 {
                0 => 10,
                1 => 100,
                2 => 1000,
                _ => ctx.tier.pick(3000, 10_000),
            };
            let err_pct = r.below(51);
            let alpha = crate::gen::alphabet(&mut r);
            // every other sequence uses keys of up to ~130 bytes whose lengths cross 8/16/32/64-byte block boundaries
            let long_keys = (i / 4) % 2 == 1;
            if long_keys {
                ev.count("sequences:random-with-long-keys");
            }
            let mut cur: Vec<u8> = vec![];
            let mut seq: Vec<(Vec<u8>, u64)> = vec![];
            for c in 0..len {
                let k = if r.below(100) < err_pct {
                    // something not greater than the current key: a repeat, a prefix, or a smaller mutation
                    match r.below(3) {
                        0 => cur.clone(),
                        1 => cur[..r.usize(cur.len() + 1)].to_vec(),
                        2 if long_keys && !cur.is_empty() => {
                            // equal to the current key up to a random position, smaller there, with a tail of arbitrary length
                            let cut = r.usize(cur.len());
                            let mut k = cur[..cut].to_vec();
                            if cur[cut] > 0 {
                                k.push(cur[cut] - 1 - r.below(cur[cut] as u64) as u8);
                                for _ in 0..r.usize(40) {
                                    k.push(*r.pick(&alpha));
                                }
                            }
                            k
                        }
                        _ => {
                            let l = r.usize(4);
                            r.bytes(l, &alpha)
                        }
                    }
                } else {
                    // usually greater: extend or bump
                    let mut k = cur.clone();
                    if long_keys && r.chance(1, 3) && k.len() < 90 {
                        // jump over several 8/16/32-byte block boundaries at once
                        for _ in 0..1 + r.usize(40) {
                            k.push(*r.pick(&alpha));
                        }
                    } else if k.is_empty() || r.chance(1, 2) && k.len() < if long_keys { 90 } else { 12 } {
                        k.push(*r.pick(&alpha));
                    } else {
                        let cut = r.usize(k.len());
                        k.truncate(cut + 1);
                        k[cut] = k[cut].wrapping_add(1 + r.below(3) as u8);
                    }
                    k
                };
                if seq.is_empty() || k > cur {
                    cur = k.clone();
                }
                seq.push((k, r.next() >> (c % 60)));
            }
            let before = ev.evaluations;
            let fe = FES[i % 4];
            if let Err(p) = guard(|| stepwise(fe, &seq, ev)) {
                ev.violate("builder-panic", format!("{:?} panicked: {}", fe, p), seq_json(&format!("{:?}", fe), &seq));
            }
            if let Err(p) = guard(|| bulk(i, &seq, ev)) {
                ev.violate("builder-panic", format!("bulk panicked: {}", p), seq_json("bulk", &seq));
            }
            // the random sequence as a mixture of single and bulk calls on one builder (random segmentation, sparse and dense cuts)
            let cuts = match i % 3 {
                0 => r.next(),
                1 => r.next() & r.next() & r.next(),
                _ => r.next() | r.next(),
            };
            let kinds = r.next();
            if let Err(p) = guard(|| session(i % 3, &seq, cuts, kinds, ev)) {
                ev.violate("builder-panic", format!("session panicked: {}", p), seq_json("session", &seq));
            }
            ev.distinct_extra += ev.evaluations - before;
            ev.count("sequences:random");
        }
    });
    let mut ev = ev;
    ev.note("exhaustive_sequences", J::U(nseq as u64));
    ev.fps.insert(1);
    ev.fps.insert(2);
    finish(
        ctx,
        ev,
        Spec {
            level: "exploration",
            rule: "one evaluation = one builder call (insert/add, or one bulk call) whose result - accept / DuplicateKey{got} / OutOfOrder{previous,got}, payloads included - is compared with a sequential model (last accepted key), bytes_written must not move on a rejected call, and the finished FST must hold exactly the accepted history; every sequence of length 2..5 is additionally replayed on ONE builder under EVERY segmentation into single inserts and bulk calls (extend_iter / extend_stream), so calls that follow a bulk call which stopped at a rejection are judged against the key that was really accepted last; sequences: ALL 55987 (thorough: 335923) call sequences of length <=6 (thorough <=7) over {\"\",a,ab,b,ba,c} x {MapBuilder, SetBuilder, raw insert-only, raw add-only} step by step, each also fed to 10 bulk front ends (extend_iter, extend_stream, from_iter, from_iter_map/set) which must stop at the first rejected item with that item's error and (extend_*) keep the items before it; a sequence of 70000-byte keys (payloads must carry the complete keys); from_iter/extend_iter on lazy iterators claiming usize::MAX items; random sequences of 10..10^4 calls with 0-50% offending calls; non-trivial = every call; distinct = (sequence, front end, call index), distinct by construction",
            assumptions: vec!["mixing add and insert on one raw builder is neither a map nor a set builder and is not judged".into()],
            floors: vec![("calls:accepted", 1000), ("calls:rejected-duplicate", 1000), ("calls:rejected-out-of-order", 1000), ("bulk-calls:stopped-at-first-rejection", 1000), ("session-calls:bulk-stopped-at-a-rejection-and-builder-used-on", 1000), ("sequences:random-with-long-keys", 100), ("sequences:exhaustive", 55_987), ("sequences:70000-byte-keys", 1), ("sequences:non-first-keys-of-128KiB-to-1MiB", 3), ("bulk-calls:astronomical-size-hint", 1)],
            exhaustive: Some(true),
        },
    )
}
