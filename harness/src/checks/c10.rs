//! C10 - Readers accept every supported format version and previously written files.
//! Files come from the harness' independent reference encoder (versions 1, 2, 3) and from committed golden files.
use crate::build::{self, Front};
use crate::ctx::{finish, guard, Ctx, Ev, Spec};
use crate::dfa::Dfa;
use crate::gen::{self, Case, Kv};
use crate::json::J;
use crate::rangeq::{self, Hi, Lo};
use crate::refdec;
use crate::refenc;
use crate::rng::Rng;
use crate::with_bounds;
use fst::automaton::Subsequence;
use fst::raw::{Error as RawError, Fst, OpBuilder};
use fst::{IntoStreamer, Map, Set, Streamer};
use std::borrow::Cow;
use std::sync::Arc;

struct ArcBytes(Arc<[u8]>);
impl AsRef<[u8]> for ArcBytes {
    fn as_ref(&self) -> &[u8] {
        &self.0
    }
}

/// the full query battery on an opened FST
/// Enumerate the file through the low-level node interface (Fst::root / Fst::node / Node::transitions / transition(i) /
/// transition_addr(i) / find_input / is_final / final_output): depth-first in transition order, outputs summed along the path.
/// The accessors of one node must agree with each other; the enumeration must equal the content.
fn node_walk<D: AsRef<[u8]>>(f: &Fst<D>, limit: usize) -> Result<Kv, String> {
    let mut out: Kv = vec![];
    // stack of (node address, next transition index, output accumulated before this node)
    let mut stack: Vec<(usize, usize, u64)> = vec![(f.root().addr(), 0, 0)];
    let mut key: Vec<u8> = vec![];
    let mut checked: std::collections::HashSet<usize> = Default::default();
    if f.root().is_final() {
        out.push((vec![], f.root().final_output().value()));
    }
    while let Some(&(addr, i, acc)) = stack.last() {
        let node = f.node(addr);
        if i == 0 && checked.insert(addr) {
            let ts: Vec<fst::raw::Transition> = node.transitions().collect();
            if ts.len() != node.len() || node.is_empty() != ts.is_empty() {
                return Err(format!("node {}: transitions() yields {} items, len() = {}, is_empty() = {}", addr, ts.len(), node.len(), node.is_empty()));
            }
            for (j, t) in ts.iter().enumerate() {
                let t2 = node.transition(j);
                if t2.inp != t.inp || t2.out != t.out || t2.addr != t.addr || node.transition_addr(j) != t.addr {
                    return Err(format!("node {}: transition({}) / transition_addr({}) disagree with transitions()", addr, j, j));
                }
                if j > 0 && ts[j - 1].inp >= t.inp {
                    return Err(format!("node {}: transitions are not in ascending input order", addr));
                }
            }
            for b in 0..=255u8 {
                let want = ts.iter().position(|t| t.inp == b);
                if node.find_input(b) != want {
                    return Err(format!("node {} ({} transitions): find_input({:#04x}) = {:?}, transitions() says {:?}", addr, ts.len(), b, node.find_input(b), want));
                }
            }
        }
        if i >= node.len() {
            stack.pop();
            key.pop();
            continue;
        }
        stack.last_mut().unwrap().1 += 1;
        let t = node.transition(i);
        key.push(t.inp);
        let acc2 = acc.wrapping_add(t.out.value());
        let child = f.node(t.addr);
        if child.is_final() {
            out.push((key.clone(), acc2.wrapping_add(child.final_output().value())));
            if out.len() > limit {
                return Err(format!("node walk yields more than {} keys", limit));
            }
        }
        stack.push((t.addr, 0, acc2));
    }
    Ok(out)
}

fn battery<D: AsRef<[u8]>>(f: &Fst<D>, kv: &Kv, version: u64, rng: &mut Rng) -> Result<(), String> {
    if f.len() != kv.len() || f.is_empty() != kv.is_empty() {
        return Err(format!("len() = {} / is_empty() = {} for {} keys", f.len(), f.is_empty(), kv.len()));
    }
    if &f.stream().into_byte_vec() != kv {
        return Err("stream() differs from the file's content".into());
    }
    // the low-level node interface
    if kv.len() <= 5000 {
        let walked = node_walk(f, kv.len() + 1).map_err(|e| format!("node interface: {}", e))?;
        if &walked != kv {
            return Err("enumeration through root()/node()/transitions() differs from the file's content".into());
        }
    }
    // verify
    match (version, f.verify()) {
        (3, Ok(())) => {}
        (3, Err(e)) => return Err(format!("verify() of a well-formed version-3 file failed: {}", e)),
        (_, Err(fst::Error::Fst(RawError::ChecksumMissing))) => {}
        (_, other) => return Err(format!("verify() on a version-{} file must report ChecksumMissing, got {:?}", version, other.map_err(|e| e.to_string()))),
    }
    // point lookups: all keys (sampled when many), prefixes, extensions, random
    let stride = (kv.len() / 300).max(1);
    for (i, (k, v)) in kv.iter().enumerate() {
        if i % stride != 0 {
            continue;
        }
        if f.get(k).map(|o| o.value()) != Some(*v) || !f.contains_key(k) {
            return Err(format!("get({}) != {}", crate::json::show_bytes(k), v));
        }
        for probe in [k[..k.len() / 2].to_vec(), [&k[..], &[0u8]].concat(), [&k[..], &[rng.next() as u8]].concat()].iter() {
            let want = kv.binary_search_by(|(x, _)| x.as_slice().cmp(probe)).ok().map(|j| kv[j].1);
            if f.get(probe).map(|o| o.value()) != want || f.contains_key(probe) != want.is_some() {
                return Err(format!("get({}) = {:?}, content says {:?}", crate::json::show_bytes(probe), f.get(probe).map(|o| o.value()), want));
            }
        }
    }
    // every byte from the root (exercises the index table / linear scan of wide nodes in every version)
    for b in 0..=255u8 {
        let want = kv.binary_search_by(|(x, _)| x.as_slice().cmp(&[b])).ok().map(|j| kv[j].1);
        if f.get(&[b]).map(|o| o.value()) != want {
            return Err(format!("get([{:#04x}]) = {:?}, content says {:?}", b, f.get(&[b]).map(|o| o.value()), want));
        }
    }
    // lower bounds that leave the automaton at the ROOT (in files with a wide root the seek has to find the next larger
    // transition with or without an index table, depending on the version), plain and under an automaton
    if !kv.is_empty() {
        let dd = Dfa::random(rng, 3, b"abte");
        for t in 0..12 {
            let b = [rng.next() as u8];
            let bound = if t % 3 == 2 { vec![b[0], 0x00] } else { b.to_vec() };
            let (lo, hi) = if t % 2 == 0 { (Lo::Ge(bound.clone()), Hi::None) } else { (Lo::Gt(bound.clone()), Hi::None) };
            let want = rangeq::expected(kv, &lo, &hi, &|_| true);
            let got = with_bounds!(f.range(), &lo, &hi).into_stream().into_byte_vec();
            if got.len() != want.len() || !got.iter().zip(want.iter()).all(|(g, w)| g.0 == w.0 && g.1 == w.1) {
                return Err(format!("range {} differs from the content", rangeq::show_q(&lo, &hi)));
            }
            let want: Vec<&(Vec<u8>, u64)> = kv.iter().filter(|(k, _)| dd.accepts(k) && if t % 2 == 0 { k >= &bound } else { k > &bound }).collect();
            let got = if t % 2 == 0 { f.search(&dd).ge(&bound).into_stream().into_byte_vec() } else { f.search(&dd).gt(&bound).into_stream().into_byte_vec() };
            if got.len() != want.len() || !got.iter().zip(want.iter()).all(|(g, w)| g.0 == w.0 && g.1 == w.1) {
                return Err(format!("search(dfa) with lower bound {} differs from the content", rangeq::show_q(&lo, &hi)));
            }
        }
    }
    // ranges
    if !kv.is_empty() {
        for _ in 0..4 {
            let a = kv[rng.usize(kv.len())].0.clone();
            let mut b = kv[rng.usize(kv.len())].0.clone();
            if rng.chance(1, 2) {
                b.push(0xff);
            }
            let (lo, hi) = match rng.below(4) {
                0 => (Lo::Ge(a), Hi::Le(b)),
                1 => (Lo::Gt(a), Hi::Lt(b)),
                2 => (Lo::Ge(a), Hi::None),
                _ => (Lo::None, Hi::Lt(b)),
            };
            let want = rangeq::expected(kv, &lo, &hi, &|_| true);
            let got = with_bounds!(f.range(), &lo, &hi).into_stream().into_byte_vec();
            if got.len() != want.len() || !got.iter().zip(want.iter()).all(|(g, w)| g.0 == w.0 && g.1 == w.1) {
                return Err(format!("range {} differs from the content", rangeq::show_q(&lo, &hi)));
            }
        }
    }
    // searches
    let pat = "a";
    let want: Vec<&(Vec<u8>, u64)> = kv.iter().filter(|(k, _)| k.contains(&b'a')).collect();
    let got = f.search(Subsequence::new(pat)).into_stream().into_byte_vec();
    if got.len() != want.len() || !got.iter().zip(want.iter()).all(|(g, w)| g.0 == w.0 && g.1 == w.1) {
        return Err("search(Subsequence(\"a\")) differs from the content".into());
    }
    let d = Dfa::random(rng, 4, b"abte");
    let want: Vec<&(Vec<u8>, u64)> = kv.iter().filter(|(k, _)| d.accepts(k)).collect();
    let got = f.search(&d).into_stream().into_byte_vec();
    if got.len() != want.len() || !got.iter().zip(want.iter()).all(|(g, w)| g.0 == w.0 && g.1 == w.1) {
        return Err("search(dfa) differs from the content".into());
    }
    Ok(())
}

fn setops(files: &[(u64, Vec<u8>)], kv: &Kv) -> Result<(), String> {
    // the same content in different versions: union == intersection == content, difference == empty
    let fsts: Vec<Fst<&[u8]>> = files.iter().map(|(_, b)| Fst::new(&b[..]).map_err(|e| e.to_string())).collect::<Result<_, _>>()?;
    let n = fsts.len();
    let mut u = fsts.iter().collect::<OpBuilder>().union();
    let mut i = 0;
    while let Some((k, ivs)) = u.next() {
        if i >= kv.len() || k != &kv[i].0[..] || ivs.len() != n || ivs.iter().any(|iv| iv.value != kv[i].1) {
            return Err(format!("union across versions: entry {} differs", i));
        }
        i += 1;
    }
    if i != kv.len() {
        return Err("union across versions ends early".into());
    }
    let mut x = fsts.iter().collect::<OpBuilder>().intersection();
    let mut i = 0;
    while let Some((k, _)) = x.next() {
        if i >= kv.len() || k != &kv[i].0[..] {
            return Err("intersection across versions differs".into());
        }
        i += 1;
    }
    if i != kv.len() {
        return Err("intersection across versions ends early".into());
    }
    if n >= 2 && fsts.iter().collect::<OpBuilder>().difference().next().is_some() {
        return Err("difference of identical content across versions is not empty".into());
    }
    Ok(())
}

fn check_file(bytes: &[u8], kv: &Kv, version: u64, container: usize, tmp: &std::path::Path, tag: u64, rng: &mut Rng, ev: &mut Ev, descr: &dyn Fn() -> J) {
    ev.eval(None);
    ev.count(&format!("files:version-{}", version));
    let cname = ["Vec<u8>", "&[u8]", "Cow::Borrowed", "Cow::Owned", "Box<[u8]>", "Arc<[u8]> newtype", "memmap2::Mmap", "map_data(Vec -> Box)", "Map/Set wrappers"][container % 9];
    ev.count(&format!("container:{}", cname));
    let r = guard(|| -> Result<(), String> {
        let open_err = |e: fst::Error| format!("a well-formed version-{} file of {} bytes does not open in {}: {}", version, bytes.len(), cname, e);
        match container % 9 {
            0 => battery(&Fst::new(bytes.to_vec()).map_err(open_err)?, kv, version, rng),
            1 => battery(&Fst::new(bytes).map_err(open_err)?, kv, version, rng),
            2 => battery(&Fst::new(Cow::Borrowed(bytes)).map_err(open_err)?, kv, version, rng),
            3 => battery(&Fst::new(Cow::<[u8]>::Owned(bytes.to_vec())).map_err(open_err)?, kv, version, rng),
            4 => battery(&Fst::new(bytes.to_vec().into_boxed_slice()).map_err(open_err)?, kv, version, rng),
            5 => battery(&Fst::new(ArcBytes(Arc::from(bytes))).map_err(open_err)?, kv, version, rng),
            6 => {
                let path = tmp.join(format!("c10-{}.fst", tag));
                std::fs::write(&path, bytes).map_err(|e| e.to_string())?;
                let res = (|| {
                    let fh = std::fs::File::open(&path).map_err(|e| e.to_string())?;
                    let mm = unsafe { memmap2::Mmap::map(&fh).map_err(|e| e.to_string())? };
                    battery(&Fst::new(mm).map_err(open_err)?, kv, version, rng)
                })();
                let _ = std::fs::remove_file(&path);
                res
            }
            7 => {
                let f = Fst::new(bytes.to_vec()).map_err(open_err)?;
                let g = f.map_data(|v| v.into_boxed_slice()).map_err(|e| format!("map_data re-open failed: {}", e))?;
                battery(&g, kv, version, rng)
            }
            _ => {
                let m = Map::new(bytes).map_err(open_err)?;
                if &m.stream().into_byte_vec() != kv || m.len() != kv.len() {
                    return Err("Map::stream differs".into());
                }
                let s = Set::new(bytes.to_vec()).map_err(open_err)?;
                if s.stream().into_bytes() != kv.iter().map(|(k, _)| k.clone()).collect::<Vec<_>>() {
                    return Err("Set::stream differs".into());
                }
                let m2 = m.map_data(|d| d.to_vec()).map_err(|e| format!("Map::map_data: {}", e))?;
                for (k, v) in kv.iter().take(50) {
                    if m2.get(k) != Some(*v) || !s.contains(k) {
                        return Err("Map::get / Set::contains differs".into());
                    }
                }
                battery(m2.as_fst(), kv, version, rng)
            }
        }
    });
    match r {
        Err(p) => ev.violate("reader-panic", format!("version-{} file in {}: {}", version, cname, p), descr()),
        Ok(Err(e)) => ev.violate(if e.contains("does not open") { "wellformed-file-rejected" } else { "reader-mismatch" }, e, descr()),
        Ok(Ok(())) => {}
    }
}

/// The readers shipped as a command line tool: `fst range -o <file>` must print exactly the content of reference-encoded files of
/// every supported version (keys here are printable, so the CSV output needs no quoting).
fn cli_readers(ctx: &Ctx, ev: &mut Ev) {
    let bin = match std::env::var_os("FST_BIN") {
        Some(b) => std::path::PathBuf::from(b),
        None => {
            ev.count("cli-readers:binary-not-available");
            return;
        }
    };
    let dir = ctx.root.join("target").join("tmp").join(format!("c10-cli-{}", std::process::id()));
    let _ = std::fs::remove_dir_all(&dir);
    if std::fs::create_dir_all(&dir).is_err() {
        return;
    }
    let mut rng = Rng::new(ctx.seed, 0xC10C11);
    let mut models: Vec<Kv> = vec![vec![], vec![(vec![], 0)], vec![(vec![], 7)], vec![(b"a".to_vec(), 1)], vec![(vec![], 2), (b"a".to_vec(), 5), (b"ab".to_vec(), 1 << 40), (b"b".to_vec(), 3)]];
    models.push((b'!'..=b'~').filter(|c| *c != b',' && *c != b'"').map(|c| (vec![c], c as u64 * 3)).collect());
    for _ in 0..ctx.tier.pick(12, 100) {
        let n = 1 + rng.usize(40);
        let mut m: std::collections::BTreeMap<Vec<u8>, u64> = Default::default();
        for _ in 0..n {
            let l = 1 + rng.usize(8);
            m.insert((0..l).map(|_| b'a' + rng.below(6) as u8).collect(), rng.below(1 << 20));
        }
        models.push(m.into_iter().collect());
    }
    for (mi, kv) in models.iter().enumerate() {
        for version in 1..=3u64 {
            let bytes = refenc::encode(kv, version, 0, [1u8, 0, 2][mi % 3], &mut rng);
            if !matches!(refdec::decode(&bytes), Ok(d) if &d.entries() == kv) {
                continue;
            }
            let path = dir.join(format!("m{}-v{}.fst", mi, version));
            if std::fs::write(&path, &bytes).is_err() {
                continue;
            }
            ev.eval(Some(crate::rng::fnv_u64(0xC10C, (mi * 4) as u64 + version)));
            ev.count("cli-readers:files");
            if bytes.len() < 36 {
                ev.count("cli-readers:files-shorter-than-36-bytes");
            }
            let out = std::process::Command::new(&bin).arg("range").arg("-o").arg(&path).env_remove("FST_VERIF_TRACE").env_remove("FST_VERIF_SEED").output();
            let descr = || J::obj(vec![("version", J::U(version)), ("file_bytes", J::U(bytes.len() as u64)), ("file_hex", J::s(crate::json::hex(&bytes[..bytes.len().min(200)]))), ("entries", J::A(kv.iter().take(20).map(|(k, v)| J::A(vec![J::bytes(k), J::U(*v)])).collect()))]);
            match out {
                Err(_) => ev.count("cli-readers:spawn-failed"),
                Ok(o) => {
                    let want: String = kv.iter().map(|(k, v)| format!("{},{}\n", String::from_utf8_lossy(k), v)).collect();
                    let got = String::from_utf8_lossy(&o.stdout).to_string();
                    if !o.status.success() {
                        ev.violate("wellformed-file-rejected", format!("`fst range` exits with {:?} on a well-formed version-{} file of {} bytes: {}", o.status.code(), version, bytes.len(), String::from_utf8_lossy(&o.stderr).lines().find(|l| !l.trim().is_empty()).unwrap_or("")), descr());
                    } else if got != want {
                        ev.violate("reader-mismatch", format!("`fst range -o` on a well-formed version-{} file of {} bytes prints {} bytes, the content renders as {} bytes", version, bytes.len(), got.len(), want.len()), descr());
                    }
                }
            }
        }
    }
    let _ = std::fs::remove_dir_all(&dir);
}

fn header_sweep(ev: &mut Ev) {
    // supported numbers, their neighbours, and numbers that only LOOK supported when truncated to 8, 16 or 32 bits or read with the wrong byte order
    let versions: [u64; 22] = [0, 1, 2, 3, 4, 5, 255, 256 + 3, 256 + 1, (1 << 16) + 3, (1 << 16) + 2, 1 << 32, (1 << 32) + 1, (1 << 32) + 2, (1 << 32) + 3, (7 << 32) + 3, (1 << 63) + 3, 1 << 63, 3 << 56, 1 << 56, u64::MAX - 1, u64::MAX];
    for &ver in versions.iter() {
        for len in 0..=44usize {
            for fill in 0..3 {
                let mut img = vec![if fill == 1 { 0xAAu8 } else { 0 }; len];
                if len >= 8 {
                    img[..8].copy_from_slice(&ver.to_le_bytes());
                }
                if fill == 2 && len >= 32 {
                    // a footer that is valid for an empty-final root
                    let end = if ver >= 3 && len >= 36 { len - 4 } else { len };
                    for b in img[end - 16..end].iter_mut() {
                        *b = 0;
                    }
                }
                ev.eval(Some(crate::rng::fnv_u64(ver ^ 0x4ead, (len * 3 + fill) as u64)));
                ev.count("header-sweep-images");
                let r = guard(|| Fst::new(&img[..]).map(|_| ()));
                let supported = ver >= 1 && ver <= 3;
                let min = if ver == 3 { 36 } else { 32 };
                let descr = J::obj(vec![("version_field", J::U(ver)), ("length", J::U(len as u64)), ("fill", J::U(fill as u64))]);
                match r {
                    Err(p) => ev.violate("reader-panic", format!("Fst::new panicked on a {}-byte image with version {}: {}", len, ver, p), descr),
                    Ok(res) => {
                        let class = match &res {
                            Ok(()) => "ok",
                            Err(fst::Error::Fst(RawError::Version { expected, got })) => {
                                if *expected != 3 || (len >= 8 && *got != ver) {
                                    ev.violate("error-class", format!("Version error carries expected={} got={} for version field {}", expected, got, ver), descr.clone());
                                }
                                "version"
                            }
                            Err(fst::Error::Fst(RawError::Format { size })) => {
                                if *size != len {
                                    ev.violate("error-class", format!("Format error carries size {} for a {}-byte input", size, len), descr.clone());
                                }
                                "format"
                            }
                            Err(_) => "other",
                        };
                        let ok = if len < 8 {
                            class == "format"
                        } else if supported {
                            if len < min {
                                class == "format"
                            } else {
                                true // content-dependent; totality is C20's business
                            }
                        } else if len >= 36 {
                            class == "version"
                        } else {
                            // unsupported version AND shorter than any well-formed file: the statement orders neither
                            class == "version" || class == "format"
                        };
                        ev.count(&format!("header-sweep:{}", class));
                        if !ok {
                            ev.violate("error-class", format!("Fst::new on a {}-byte image with version field {} returned '{}'", len, ver, class), descr);
                        }
                    }
                }
            }
        }
    }
}

pub fn golden_models(seed: u64) -> Vec<(&'static str, Kv)> {
    let mut rng = Rng::new(seed, 0x601d);
    let words = gen::corpus("words-10000");
    let mut v: Vec<(&'static str, Kv)> = vec![
        ("empty", vec![]),
        ("only-empty-key", vec![(vec![], 0)]),
        ("empty-key-7", vec![(vec![], 7)]),
        ("single", vec![(b"hello".to_vec(), 42)]),
        ("fanout33", gen::assign(gen::fanout_keys(33, 0, false, true, &mut rng), 2, &mut rng)),
        ("fanout256", gen::assign(gen::fanout_keys(256, 1, true, false, &mut rng), 4, &mut rng)),
        ("binary-bigvalues", gen::assign(gen::random_keys(&mut rng, 500, &(0..=255u8).collect::<Vec<_>>(), 4), 5, &mut rng)),
        ("long-key", vec![(vec![b'x'; 3000], 1), (vec![b'y'; 10], u64::MAX)]),
    ];
    if !words.is_empty() {
        v.push(("words2000-index", gen::assign(words.iter().step_by(5).cloned().collect(), 1, &mut rng)));
        v.push(("words2000-set", gen::assign(words.iter().skip(2).step_by(5).cloned().collect(), 0, &mut rng)));
    }
    v
}

/// `fstmon golden-write`: (re)create /verif/golden (done once; the files are committed)
pub fn golden_write(ctx: &Ctx) -> i32 {
    let dir = ctx.root.join("golden");
    let _ = std::fs::create_dir_all(&dir);
    let mut rng = Rng::new(7, 0x601d_1);
    for (name, kv) in golden_models(7) {
        let side: String = kv.iter().map(|(k, v)| format!("{} {}\n", crate::json::hex(k), v)).collect();
        std::fs::write(dir.join(format!("{}.expected", name)), side).unwrap();
        let b = build::build(Front::MapInsert, &kv).unwrap();
        std::fs::write(dir.join(format!("{}.v3-crate.fst", name)), &b).unwrap();
        for ver in 1..=3u64 {
            let b = refenc::encode(&kv, ver, 0, 1, &mut rng);
            let d = refdec::decode(&b).expect("refdec accepts refenc output");
            assert_eq!(&d.entries(), &kv);
            std::fs::write(dir.join(format!("{}.v{}-refenc.fst", name, ver)), &b).unwrap();
        }
        println!("golden {} ({} keys)", name, kv.len());
    }
    0
}

fn read_expected(path: &std::path::Path) -> Option<Kv> {
    let text = std::fs::read_to_string(path).ok()?;
    let mut kv = vec![];
    for l in text.lines() {
        let mut it = l.split(' ');
        let h = it.next()?;
        let v: u64 = it.next()?.parse().ok()?;
        let k: Vec<u8> = (0..h.len() / 2).map(|i| u8::from_str_radix(&h[2 * i..2 * i + 2], 16).unwrap_or(0)).collect();
        kv.push((k, v));
    }
    Some(kv)
}

fn small_models(ctx: &Ctx) -> Vec<Case> {
    let mut v = crate::checks::c07::small_cases(ctx, ctx.tier.pick(8000, 40_000));
    v.push(Case { kv: vec![], set: true, family: "special", index: 0 });
    v.push(Case { kv: vec![(vec![], 0)], set: true, family: "special", index: 1 });
    v.push(Case { kv: vec![(vec![], 5)], set: false, family: "special", index: 2 });
    v.push(Case { kv: vec![(vec![0], 0)], set: true, family: "special", index: 3 });
    // dense product sets: (many) more keys than bytes
    for f in gen::pool(ctx.tier, ctx.seed, 1).iter().filter(|f| f.name == "dense-product") {
        for i in 0..f.count {
            v.push((f.make)(i));
        }
    }
    v
}

pub fn run(ctx: &Ctx) -> i32 {
    let models = small_models(ctx);
    let tmp = ctx.root.join("target").join("tmp");
    let _ = std::fs::create_dir_all(&tmp);
    let ev = ctx.par(|shard, n, ev| {
        let mut rng = Rng::new(ctx.seed, 0xC10 + shard as u64);
        for (mi, case) in models.iter().enumerate() {
            if mi % n != shard {
                continue;
            }
            let kv = &case.kv;
            let mut per_version: Vec<(u64, Vec<u8>)> = vec![];
            // (version, bytes, holds the second content) - candidates for swapping the data under an open container
            let mut swap_pool: Vec<(u64, Vec<u8>, bool)> = vec![];
            let before = ev.evaluations;
            for version in 1..=3u64 {
                for dist in 0..2 {
                    let policy = [1u8, 0, 2][(mi + dist) % 3];
                    let bytes = refenc::encode(kv, version, 0, policy, &mut rng);
                    // self-check of the oracle: the independent decoder must read back the model
                    match refdec::decode(&bytes) {
                        Ok(d) if &d.entries() == kv && d.tiling().is_ok() => {}
                        other => panic!("harness: reference encoder/decoder disagree on {:?}: {:?}", case.describe().to_string(), other.map(|d| d.len)),
                    }
                    if bytes.len() < 36 {
                        ev.count(&format!("files:shorter-than-36-bytes:version-{}", version));
                    }
                    if refdec::decode(&bytes).map(|d| d.nodes.values().any(|nd| nd.trans.len() > 32)).unwrap_or(false) {
                        ev.count(&format!("files:with-node-over-32-transitions:version-{}", version));
                    }
                    let container = mi + dist * 4 + version as usize;
                    let tag = ((shard as u64) << 40) | (mi as u64) << 4 | version << 1 | dist as u64;
                    let descr = || J::obj(vec![("case", case.describe()), ("version", J::U(version)), ("file_bytes", J::U(bytes.len() as u64)), ("file_hex", J::s(crate::json::hex(&bytes[..bytes.len().min(200)])))]);
                    check_file(&bytes, kv, version, container, &tmp, tag, &mut rng, ev, &descr);
                    swap_pool.push((version, bytes.clone(), false));
                    if dist == 0 {
                        per_version.push((version, bytes));
                    }
                }
            }
            // the crate's own output next to the three reference encodings in one set operation
            if let Ok(Ok(b)) = guard(|| build::build(Front::MapInsert, kv)) {
                per_version.push((3, b));
            }
            ev.eval(None);
            ev.count("cross-version-set-operations");
            match guard(|| setops(&per_version, kv)) {
                Err(p) => ev.violate("reader-panic", format!("set operations across versions panicked: {}", p), case.describe()),
                Ok(Err(e)) => ev.violate("reader-mismatch", e, case.describe()),
                Ok(Ok(())) => {}
            }
            // map_data onto DIFFERENT bytes of the SAME length (a regenerated file behind a refreshed memory map, a buffer patched in
            // place, the same content in another version): the container must answer according to the bytes it holds now
            {
                let kv2: Kv = kv.iter().map(|(k, v)| (k.clone(), *v ^ 1)).collect();
                for version in 1..=3u64 {
                    let mut r2 = Rng::new(ctx.seed ^ 0x5a5a, case.fp() ^ version);
                    let b2 = refenc::encode(&kv2, version, 0, [1u8, 0, 2][mi % 3], &mut r2);
                    if matches!(refdec::decode(&b2), Ok(d) if d.entries() == kv2) {
                        swap_pool.push((version, b2, true));
                    }
                }
                if let Ok(Ok(b)) = guard(|| build::build(Front::MapInsert, &kv2)) {
                    swap_pool.push((3, b, true));
                }
                let mut done = 0;
                'outer: for (ai, a) in swap_pool.iter().enumerate() {
                    for (bi, b) in swap_pool.iter().enumerate() {
                        if ai == bi || a.1.len() != b.1.len() || a.1 == b.1 || (ai + bi + mi) % 2 == 1 {
                            continue;
                        }
                        ev.eval(None);
                        ev.count("map_data-onto-different-bytes-of-the-same-length");
                        if a.0 != b.0 {
                            ev.count("map_data-onto-another-version-of-the-same-length");
                        }
                        let kvb = if b.2 { &kv2 } else { kv };
                        let mut r3 = Rng::new(ctx.seed, (ai * 31 + bi) as u64);
                        let r = guard(|| -> Result<(), String> {
                            let f = Fst::new(a.1.clone()).map_err(|e| format!("first file does not open: {}", e))?;
                            let _ = f.verify();
                            let _ = f.len();
                            let g = f.map_data(|_| b.1.clone()).map_err(|e| format!("map_data onto a well-formed version-{} file failed: {}", b.0, e))?;
                            battery(&g, kvb, b.0, &mut r3)
                        });
                        let descr = || J::obj(vec![("case", case.describe()), ("opened_as_version", J::U(a.0)), ("then_map_data_onto_version", J::U(b.0)), ("bytes", J::U(a.1.len() as u64)), ("second_content", J::Bool(b.2))]);
                        match r {
                            Err(p) => ev.violate("reader-panic", format!("version-{} file, then map_data onto a version-{} file of the same length: {}", a.0, b.0, p), descr()),
                            Ok(Err(e)) => ev.violate("reader-mismatch", format!("version-{} file, then map_data onto a different version-{} file of the same length ({} bytes): {}", a.0, b.0, a.1.len(), e), descr()),
                            Ok(Ok(())) => {}
                        }
                        done += 1;
                        if done >= 4 {
                            break 'outer;
                        }
                    }
                }
            }
            ev.distinct_extra += ev.evaluations - before;
            ev.fps.insert(case.fp());
            if mi % 601 == 9 {
                ev.sample(J::obj(vec![("case", case.describe()), ("encoded_as", J::s("versions 1,2,3 x 2 output distributions / node-form policies, opened in rotating containers"))]));
            }
        }
        // golden files
        if shard == 0 {
            let dir = ctx.root.join("golden");
            let mut names: Vec<std::path::PathBuf> = std::fs::read_dir(&dir).map(|rd| rd.filter_map(|e| e.ok()).map(|e| e.path()).filter(|p| p.extension().map(|x| x == "fst").unwrap_or(false)).collect()).unwrap_or_default();
            names.sort();
            for (gi, p) in names.iter().enumerate() {
                let stem = p.file_name().unwrap().to_string_lossy().to_string();
                let model = stem.split('.').next().unwrap().to_string();
                let version: u64 = if stem.contains(".v1-") { 1 } else if stem.contains(".v2-") { 2 } else { 3 };
                let kv = match read_expected(&dir.join(format!("{}.expected", model))) {
                    Some(kv) => kv,
                    None => continue,
                };
                let bytes = std::fs::read(p).unwrap_or_default();
                ev.count("golden-files");
                ev.fps.insert(crate::rng::fnv(stem.as_bytes()));
                for c in 0..3 {
                    let descr = || J::obj(vec![("golden_file", J::s(stem.clone())), ("version", J::U(version))]);
                    check_file(&bytes, &kv, version, gi + c * 3, &tmp, 0x601d_0000 + (gi * 4 + c) as u64, &mut rng, ev, &descr);
                }
            }
            header_sweep(ev);
        }
        // larger files in every version
        let big: Vec<(&str, usize)> = ctx.tier.pick(vec![("words-10000", 1)], vec![("words-10000", 1), ("wiki-urls-10000", 5), ("words-100000", 1)]);
        for (bi, (name, style)) in big.iter().enumerate() {
            if (bi + 3) % n != shard {
                continue;
            }
            let keys = gen::corpus(name);
            if keys.is_empty() {
                continue;
            }
            let kv = gen::assign(keys, *style, &mut rng);
            for version in 1..=3u64 {
                let bytes = refenc::encode(&kv, version, 0, 1, &mut rng);
                let descr = || J::obj(vec![("corpus", J::s(*name)), ("version", J::U(version))]);
                ev.fps.insert(crate::rng::fnv_u64(crate::rng::fnv(name.as_bytes()), version));
                check_file(&bytes, &kv, version, bi + version as usize * 2, &tmp, 0xb16_0000 + (bi * 4) as u64 + version, &mut rng, ev, &descr);
                ev.count("large-files");
            }
        }
    });
    let mut ev = ev;
    cli_readers(ctx, &mut ev);
    finish(
        ctx,
        ev,
        Spec {
            level: "exploration",
            rule: "(the reader shipped as a command line tool: `fst range -o <file>` (subprocess) over reference-encoded files of every version, including the 32..35-byte files of versions 1 and 2, must exit 0 and print exactly the file's content) (additionally: a container opened from one file whose data is swapped through map_data for DIFFERENT well-formed bytes of the SAME length - the other content, or the same content in another version - must pass the battery for the bytes it holds now) one evaluation = one file opened in one container and put through the query battery (len/is_empty, full stream, a depth-first enumeration through the low-level node interface root()/node()/transitions()/transition(i)/transition_addr(i)/find_input(all 256 bytes) whose accessors must agree with each other and with the content, verify() = Ok for v3 / ChecksumMissing for v1-2, lookups of keys/prefixes/extensions and every single byte from the root, 4 random ranges, Subsequence and DFA searches) against the model the file encodes; files: ~8000 (thorough 40000) models x versions {1,2,3} x 2 output distributions and node-form policies produced by the harness' independent reference encoder (self-checked by the independent decoder; includes empty map, only-empty-key, files of 32..35 bytes, nodes with >32 transitions with and without index, dense product sets with far more keys than bytes), cross-version union/intersection/difference together with the crate's own output, 40 committed golden files (v1/v2/v3 reference encodings and v3 crate output with sidecar content), corpora in all versions; containers rotate over Vec, &[u8], Cow::Borrowed/Owned, Box<[u8]>, Arc newtype, memory map, map_data, Map/Set wrappers; plus a header sweep: version field in {0,1,2,3,4,5,255,2^32,u64::MAX} x lengths 0..44 x 3 fillings with the required error class (Version{expected:3,got}, Format{size}); non-trivial = every evaluation; distinct = by construction / fingerprint",
            assumptions: vec!["inputs that are both of unsupported version and shorter than any well-formed file may report either Format or Version".into(), "reference encoder output is validated by the reference decoder before use; a disagreement aborts the run as a harness error".into()],
            floors: vec![
                ("files:version-1", 1000),
                ("files:version-2", 1000),
                ("files:version-3", 1000),
                ("files:shorter-than-36-bytes:version-1", 1),
                ("files:shorter-than-36-bytes:version-2", 1),
                ("files:with-node-over-32-transitions:version-1", 10),
                ("files:with-node-over-32-transitions:version-2", 10),
                ("container:memmap2::Mmap", 100),
                ("container:Cow::Borrowed", 100),
                ("golden-files", 30),
                ("header-sweep-images", 1000),
                ("cross-version-set-operations", 1000),
                ("map_data-onto-different-bytes-of-the-same-length", 1000),
                ("cli-readers:files", 40),
                ("cli-readers:files-shorter-than-36-bytes", 4),
                ("map_data-onto-another-version-of-the-same-length", 500),
            ],
            exhaustive: Some(false),
        },
    )
}
