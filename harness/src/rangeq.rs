//! Range/search query helpers: bounds, model oracle, monitored raw search (hook H3).
use crate::gen::Kv;
use fst::raw::Fst;
use fst::{Automaton, IntoStreamer, Streamer};

#[derive(Clone, Debug, PartialEq)]
pub enum Lo {
    None,
    Ge(Vec<u8>),
    Gt(Vec<u8>),
}
#[derive(Clone, Debug, PartialEq)]
pub enum Hi {
    None,
    Le(Vec<u8>),
    Lt(Vec<u8>),
}

pub fn in_range(k: &[u8], lo: &Lo, hi: &Hi) -> bool {
    (match lo {
        Lo::None => true,
        Lo::Ge(b) => k >= &b[..],
        Lo::Gt(b) => k > &b[..],
    }) && (match hi {
        Hi::None => true,
        Hi::Le(b) => k <= &b[..],
        Hi::Lt(b) => k < &b[..],
    })
}

pub fn expected<'a>(kv: &'a Kv, lo: &Lo, hi: &Hi, pred: &dyn Fn(&[u8]) -> bool) -> Vec<&'a (Vec<u8>, u64)> {
    kv.iter().filter(|(k, _)| in_range(k, lo, hi) && pred(k)).collect()
}

pub fn show_q(lo: &Lo, hi: &Hi) -> String {
    let l = match lo {
        Lo::None => "-".to_string(),
        Lo::Ge(b) => format!("ge({})", crate::json::show_bytes(b)),
        Lo::Gt(b) => format!("gt({})", crate::json::show_bytes(b)),
    };
    let h = match hi {
        Hi::None => "-".to_string(),
        Hi::Le(b) => format!("le({})", crate::json::show_bytes(b)),
        Hi::Lt(b) => format!("lt({})", crate::json::show_bytes(b)),
    };
    format!("lower={} upper={}", l, h)
}

#[macro_export]
macro_rules! with_bounds {
    ($b:expr, $lo:expr, $hi:expr) => {{
        let b = $b;
        let b = match $lo {
            $crate::rangeq::Lo::None => b,
            $crate::rangeq::Lo::Ge(x) => b.ge(x),
            $crate::rangeq::Lo::Gt(x) => b.gt(x),
        };
        match $hi {
            $crate::rangeq::Hi::None => b,
            $crate::rangeq::Hi::Le(x) => b.le(x),
            $crate::rangeq::Hi::Lt(x) => b.lt(x),
        }
    }};
}

/// Run `search_with_state(aut)` with bounds on a raw FST, checking the H3 invariants after
/// construction and after every `next()`:
///   * stack empty, or stack depth == key buffer length + 1 (lock step)
///   * frame d holds the automaton state reached after consuming key_buffer[..d]
/// Returns the emitted (key, value, state) triples or a description of the broken invariant.
pub fn monitored<D: AsRef<[u8]>, A>(fst: &Fst<D>, aut: A, lo: &Lo, hi: &Hi, runner: &dyn Fn(&[u8]) -> A::State, checks: &mut u64) -> Result<(Vec<(Vec<u8>, u64, A::State)>, Option<String>), String>
where
    A: Automaton,
    A::State: Clone + PartialEq + std::fmt::Debug,
{
    let mut s = with_bounds!(fst.search_with_state(aut), lo, hi).into_stream();
    let mut out = vec![];
    let mut steps = 0usize;
    // the first breach of an internal invariant; it is a diagnosis attached to an output violation, not a verdict:
    // the statement speaks about the stream's output, and a different (correct) traversal could keep other invariants
    let mut breach: Option<String> = None;
    loop {
        if breach.is_none() {
            let (inp, frames) = s.verif_frames();
            *checks += 1;
            if !frames.is_empty() {
                if frames.len() != inp.len() + 1 {
                    breach = Some(format!("lock-step broken after {} next() calls: stack depth {} but key buffer length {}", steps, frames.len(), inp.len()));
                }
                for (d, fr) in frames.iter().enumerate() {
                    if breach.is_some() {
                        break;
                    }
                    let want = runner(&inp[..d]);
                    if *fr.2 != want {
                        breach = Some(format!(
                            "frame {} holds automaton state {:?} but the automaton run on key-buffer[..{}]={} gives {:?} (after {} next() calls)",
                            d,
                            fr.2,
                            d,
                            crate::json::show_bytes(&inp[..d]),
                            want,
                            steps
                        ));
                    }
                }
            }
        }
        match s.next() {
            Some((k, v, st)) => out.push((k.to_vec(), v.value(), st)),
            None => break,
        }
        steps += 1;
        if steps > 50_000_000 {
            return Err("stream does not end".into());
        }
    }
    // polling again after the end must keep returning None
    if s.next().is_some() {
        return Err("stream yields an entry after it ended".into());
    }
    Ok((out, breach))
}

/// lower-bound class decided from the input alone
pub fn lower_class(kv: &Kv, lo: &Lo) -> &'static str {
    let (b, incl) = match lo {
        Lo::None => return "lo:none",
        Lo::Ge(b) => (b, true),
        Lo::Gt(b) => (b, false),
    };
    if b.is_empty() {
        return if incl { "lo:empty-inclusive" } else { "lo:empty-exclusive" };
    }
    let is_key = kv.binary_search_by(|(k, _)| k.as_slice().cmp(b)).is_ok();
    if is_key {
        return if incl { "lo:exact-key-inclusive" } else { "lo:exact-key-exclusive" };
    }
    let is_prefix = kv.iter().any(|(k, _)| k.starts_with(b));
    if is_prefix {
        return if incl { "lo:nonfinal-prefix-inclusive" } else { "lo:nonfinal-prefix-exclusive" };
    }
    // longest prefix of b that is a prefix of some key
    let mut l = 0;
    while l < b.len() && kv.iter().any(|(k, _)| k.starts_with(&b[..l + 1])) {
        l += 1;
    }
    let p = &b[..l];
    let c = b[l];
    let has_children = kv.iter().any(|(k, _)| k.len() > l && k.starts_with(p));
    if !has_children {
        return if incl { "lo:past-leaf-inclusive" } else { "lo:past-leaf-exclusive" };
    }
    let larger = kv.iter().any(|(k, _)| k.len() > l && k.starts_with(p) && k[l] > c);
    match (larger, incl) {
        (true, true) => "lo:diverges-larger-sibling-inclusive",
        (true, false) => "lo:diverges-larger-sibling-exclusive",
        (false, true) => "lo:diverges-no-larger-sibling-inclusive",
        (false, false) => "lo:diverges-no-larger-sibling-exclusive",
    }
}

pub fn upper_class(kv: &Kv, hi: &Hi) -> &'static str {
    let (b, incl) = match hi {
        Hi::None => return "hi:none",
        Hi::Le(b) => (b, true),
        Hi::Lt(b) => (b, false),
    };
    if b.is_empty() {
        return if incl { "hi:empty-inclusive" } else { "hi:empty-exclusive" };
    }
    if kv.is_empty() {
        return "hi:on-empty-fst";
    }
    if kv.binary_search_by(|(k, _)| k.as_slice().cmp(b)).is_ok() {
        return if incl { "hi:exact-key-inclusive" } else { "hi:exact-key-exclusive" };
    }
    if b < &kv[0].0 {
        "hi:before-first"
    } else if b > &kv[kv.len() - 1].0 {
        "hi:after-last"
    } else {
        "hi:between"
    }
}
