//! O(|q||k|) edit distance over Unicode scalar values.
pub fn distance(q: &str, k: &str) -> usize {
    let q: Vec<char> = q.chars().collect();
    let k: Vec<char> = k.chars().collect();
    let mut prev: Vec<usize> = (0..=q.len()).collect();
    for (i, kc) in k.iter().enumerate() {
        let mut cur = vec![i + 1];
        for (j, qc) in q.iter().enumerate() {
            let sub = prev[j] + if kc == qc { 0 } else { 1 };
            cur.push(sub.min(prev[j + 1] + 1).min(cur[j] + 1));
        }
        prev = cur;
    }
    prev[q.len()]
}
