//! Minimal JSON value + serializer + a tiny parser (enough for replay files).
#[derive(Clone, Debug, PartialEq)]
pub enum J {
    Null,
    Bool(bool),
    U(u64),
    I(i64),
    F(f64),
    S(String),
    A(Vec<J>),
    O(Vec<(String, J)>),
}

impl J {
    pub fn s<T: Into<String>>(t: T) -> J {
        J::S(t.into())
    }
    pub fn obj(items: Vec<(&str, J)>) -> J {
        J::O(items.into_iter().map(|(k, v)| (k.to_string(), v)).collect())
    }
    pub fn bytes(b: &[u8]) -> J {
        J::S(show_bytes(b))
    }
    pub fn get(&self, k: &str) -> Option<&J> {
        match self {
            J::O(items) => items.iter().find(|(kk, _)| kk == k).map(|(_, v)| v),
            _ => None,
        }
    }
    pub fn as_u64(&self) -> Option<u64> {
        match self {
            J::U(v) => Some(*v),
            J::I(v) if *v >= 0 => Some(*v as u64),
            J::F(f) if *f >= 0.0 => Some(*f as u64),
            _ => None,
        }
    }
    pub fn as_str(&self) -> Option<&str> {
        match self {
            J::S(s) => Some(s),
            _ => None,
        }
    }
    pub fn write(&self, out: &mut String, indent: usize) {
        let pad = |out: &mut String, n: usize| {
            for _ in 0..n {
                out.push(' ');
            }
        };
        match self {
            J::Null => out.push_str("null"),
            J::Bool(b) => out.push_str(if *b { "true" } else { "false" }),
            J::U(v) => out.push_str(&v.to_string()),
            J::I(v) => out.push_str(&v.to_string()),
            J::F(v) => {
                if v.is_finite() {
                    out.push_str(&format!("{:.3}", v))
                } else {
                    out.push_str("0")
                }
            }
            J::S(s) => esc(s, out),
            J::A(items) => {
                if items.is_empty() {
                    out.push_str("[]");
                    return;
                }
                let simple = items.iter().all(|i| !matches!(i, J::A(_) | J::O(_)));
                if simple {
                    out.push('[');
                    for (i, it) in items.iter().enumerate() {
                        if i > 0 {
                            out.push_str(", ");
                        }
                        it.write(out, indent);
                    }
                    out.push(']');
                } else {
                    out.push_str("[\n");
                    for (i, it) in items.iter().enumerate() {
                        pad(out, indent + 1);
                        it.write(out, indent + 1);
                        if i + 1 < items.len() {
                            out.push(',');
                        }
                        out.push('\n');
                    }
                    pad(out, indent);
                    out.push(']');
                }
            }
            J::O(items) => {
                if items.is_empty() {
                    out.push_str("{}");
                    return;
                }
                out.push_str("{\n");
                for (i, (k, v)) in items.iter().enumerate() {
                    pad(out, indent + 1);
                    esc(k, out);
                    out.push_str(": ");
                    v.write(out, indent + 1);
                    if i + 1 < items.len() {
                        out.push(',');
                    }
                    out.push('\n');
                }
                pad(out, indent);
                out.push('}');
            }
        }
    }
    pub fn to_string(&self) -> String {
        let mut s = String::new();
        self.write(&mut s, 0);
        s.push('\n');
        s
    }
}

fn esc(s: &str, out: &mut String) {
    out.push('"');
    for c in s.chars() {
        match c {
            '"' => out.push_str("\\\""),
            '\\' => out.push_str("\\\\"),
            '\n' => out.push_str("\\n"),
            '\r' => out.push_str("\\r"),
            '\t' => out.push_str("\\t"),
            c if (c as u32) < 0x20 => out.push_str(&format!("\\u{:04x}", c as u32)),
            c => out.push(c),
        }
    }
    out.push('"');
}

/// printable rendering of a byte string: ascii as is, others as \xNN
pub fn show_bytes(b: &[u8]) -> String {
    let mut s = String::new();
    let lim = 80;
    for &c in b.iter().take(lim) {
        if (0x20..0x7f).contains(&c) && c != b'\\' {
            s.push(c as char);
        } else {
            s.push_str(&format!("\\x{:02x}", c));
        }
    }
    if b.len() > lim {
        s.push_str(&format!("...(+{} bytes)", b.len() - lim));
    }
    s
}

pub fn hex(b: &[u8]) -> String {
    let mut s = String::with_capacity(b.len() * 2);
    for &c in b {
        s.push_str(&format!("{:02x}", c));
    }
    s
}

// ---- tiny parser (objects, arrays, strings, numbers, literals) ----
pub fn parse(text: &str) -> Option<J> {
    let b = text.as_bytes();
    let mut p = 0usize;
    let v = pv(b, &mut p)?;
    Some(v)
}
fn ws(b: &[u8], p: &mut usize) {
    while *p < b.len() && (b[*p] as char).is_whitespace() {
        *p += 1;
    }
}
fn pv(b: &[u8], p: &mut usize) -> Option<J> {
    ws(b, p);
    if *p >= b.len() {
        return None;
    }
    match b[*p] {
        b'{' => {
            *p += 1;
            let mut items = vec![];
            loop {
                ws(b, p);
                if *p < b.len() && b[*p] == b'}' {
                    *p += 1;
                    return Some(J::O(items));
                }
                let k = match pv(b, p)? {
                    J::S(s) => s,
                    _ => return None,
                };
                ws(b, p);
                if *p >= b.len() || b[*p] != b':' {
                    return None;
                }
                *p += 1;
                let v = pv(b, p)?;
                items.push((k, v));
                ws(b, p);
                if *p < b.len() && b[*p] == b',' {
                    *p += 1;
                }
            }
        }
        b'[' => {
            *p += 1;
            let mut items = vec![];
            loop {
                ws(b, p);
                if *p < b.len() && b[*p] == b']' {
                    *p += 1;
                    return Some(J::A(items));
                }
                items.push(pv(b, p)?);
                ws(b, p);
                if *p < b.len() && b[*p] == b',' {
                    *p += 1;
                }
            }
        }
        b'"' => {
            *p += 1;
            let mut s = String::new();
            while *p < b.len() && b[*p] != b'"' {
                if b[*p] == b'\\' && *p + 1 < b.len() {
                    *p += 1;
                    match b[*p] {
                        b'n' => s.push('\n'),
                        b't' => s.push('\t'),
                        b'r' => s.push('\r'),
                        b'u' => {
                            let h = std::str::from_utf8(&b[*p + 1..*p + 5]).ok()?;
                            s.push(std::char::from_u32(u32::from_str_radix(h, 16).ok()?)?);
                            *p += 4;
                        }
                        c => s.push(c as char),
                    }
                    *p += 1;
                } else {
                    // copy one utf-8 char
                    let st = *p;
                    *p += 1;
                    while *p < b.len() && (b[*p] & 0xC0) == 0x80 {
                        *p += 1;
                    }
                    s.push_str(std::str::from_utf8(&b[st..*p]).ok()?);
                }
            }
            *p += 1;
            Some(J::S(s))
        }
        b't' => {
            *p += 4;
            Some(J::Bool(true))
        }
        b'f' => {
            *p += 5;
            Some(J::Bool(false))
        }
        b'n' => {
            *p += 4;
            Some(J::Null)
        }
        _ => {
            let st = *p;
            while *p < b.len() && (b[*p] == b'-' || b[*p] == b'+' || b[*p] == b'.' || b[*p] == b'e' || b[*p] == b'E' || b[*p].is_ascii_digit()) {
                *p += 1;
            }
            let t = std::str::from_utf8(&b[st..*p]).ok()?;
            if let Ok(u) = t.parse::<u64>() {
                Some(J::U(u))
            } else if let Ok(i) = t.parse::<i64>() {
                Some(J::I(i))
            } else {
                t.parse::<f64>().ok().map(J::F)
            }
        }
    }
}
