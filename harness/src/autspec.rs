//! Expression trees over the shipped automata and combinators:
//!   * `SpecE::to_expr` builds the REAL library automaton (type-erased through the `Expr` enum,
//!     which delegates every call to fst::automaton::{Str,Subsequence,AlwaysMatch,StartsWith,Union,
//!     Intersection,Complement,&A});
//!   * `SpecE::ref_dfa` builds an independent reference DFA by textbook constructions with exact
//!     can/always sets (graph reachability);
//!   * `SpecE::matches` is a brute-force membership test (a third, independent definition).
use crate::dfa::Dfa;
use fst::automaton::{AlwaysMatch, Complement, ComplementState, Intersection, IntersectionState, Levenshtein, StartsWith, StartsWithState, Str, Subsequence, Union, UnionState};
use fst::Automaton;
use std::collections::HashMap;

#[derive(Clone, Debug)]
pub enum SpecE {
    Str(String),
    Subseq(String),
    Always,
    Dfa(Dfa),
    /// Levenshtein(query, distance): only for C04 (no reference DFA; brute-force oracle only)
    Lev(String, u32),
    StartsWith(Box<SpecE>),
    Union(Box<SpecE>, Box<SpecE>),
    Inter(Box<SpecE>, Box<SpecE>),
    Compl(Box<SpecE>),
    /// the `&A` blanket implementation
    Ref(Box<SpecE>),
}

pub enum Expr {
    Str(Str<'static>),
    Subseq(Subsequence<'static>),
    Always(AlwaysMatch),
    Dfa(Dfa),
    Lev(Levenshtein),
    StartsWith(Box<StartsWith<Expr>>),
    Union(Box<Union<Expr, Expr>>),
    Inter(Box<Intersection<Expr, Expr>>),
    Compl(Box<Complement<Expr>>),
    Ref(Box<Expr>),
}

pub enum ExprState {
    Str(Option<usize>),
    Subseq(usize),
    Always,
    Dfa(usize),
    Lev(Option<usize>),
    StartsWith(Box<StartsWithState<Expr>>),
    Union(Box<UnionState<Expr, Expr>>),
    Inter(Box<IntersectionState<Expr, Expr>>),
    Compl(Box<ComplementState<Expr>>),
}

macro_rules! delegate {
    ($self:ident, $st:ident, $method:ident $(, $arg:expr)*) => {
        match ($self, $st) {
            (Expr::Str(a), ExprState::Str(s)) => a.$method(s $(, $arg)*),
            (Expr::Subseq(a), ExprState::Subseq(s)) => a.$method(s $(, $arg)*),
            (Expr::Always(a), ExprState::Always) => a.$method(&() $(, $arg)*),
            (Expr::Dfa(a), ExprState::Dfa(s)) => a.$method(s $(, $arg)*),
            (Expr::Lev(a), ExprState::Lev(s)) => a.$method(s $(, $arg)*),
            (Expr::StartsWith(a), ExprState::StartsWith(s)) => a.$method(s $(, $arg)*),
            (Expr::Union(a), ExprState::Union(s)) => a.$method(s $(, $arg)*),
            (Expr::Inter(a), ExprState::Inter(s)) => a.$method(s $(, $arg)*),
            (Expr::Compl(a), ExprState::Compl(s)) => a.$method(s $(, $arg)*),
            (Expr::Ref(a), s) => (&**a).$method(s $(, $arg)*),
            _ => unreachable!("state/automaton mismatch"),
        }
    };
}

impl Automaton for Expr {
    type State = ExprState;
    fn start(&self) -> ExprState {
        match self {
            Expr::Str(a) => ExprState::Str(a.start()),
            Expr::Subseq(a) => ExprState::Subseq(a.start()),
            Expr::Always(a) => {
                a.start();
                ExprState::Always
            }
            Expr::Dfa(a) => ExprState::Dfa(a.start()),
            Expr::Lev(a) => ExprState::Lev(a.start()),
            Expr::StartsWith(a) => ExprState::StartsWith(Box::new(a.start())),
            Expr::Union(a) => ExprState::Union(Box::new(a.start())),
            Expr::Inter(a) => ExprState::Inter(Box::new(a.start())),
            Expr::Compl(a) => ExprState::Compl(Box::new(a.start())),
            // goes through `impl Automaton for &T`
            Expr::Ref(a) => <&Expr as Automaton>::start(&&**a),
        }
    }
    fn is_match(&self, st: &ExprState) -> bool {
        match self {
            Expr::Ref(a) => <&Expr as Automaton>::is_match(&&**a, st),
            _ => delegate!(self, st, is_match),
        }
    }
    fn can_match(&self, st: &ExprState) -> bool {
        match self {
            Expr::Ref(a) => <&Expr as Automaton>::can_match(&&**a, st),
            _ => delegate!(self, st, can_match),
        }
    }
    fn will_always_match(&self, st: &ExprState) -> bool {
        match self {
            Expr::Ref(a) => <&Expr as Automaton>::will_always_match(&&**a, st),
            _ => delegate!(self, st, will_always_match),
        }
    }
    fn accept(&self, st: &ExprState, b: u8) -> ExprState {
        match (self, st) {
            (Expr::Str(a), ExprState::Str(s)) => ExprState::Str(a.accept(s, b)),
            (Expr::Subseq(a), ExprState::Subseq(s)) => ExprState::Subseq(a.accept(s, b)),
            (Expr::Always(a), ExprState::Always) => {
                a.accept(&(), b);
                ExprState::Always
            }
            (Expr::Dfa(a), ExprState::Dfa(s)) => ExprState::Dfa(a.accept(s, b)),
            (Expr::Lev(a), ExprState::Lev(s)) => ExprState::Lev(a.accept(s, b)),
            (Expr::StartsWith(a), ExprState::StartsWith(s)) => ExprState::StartsWith(Box::new(a.accept(s, b))),
            (Expr::Union(a), ExprState::Union(s)) => ExprState::Union(Box::new(a.accept(s, b))),
            (Expr::Inter(a), ExprState::Inter(s)) => ExprState::Inter(Box::new(a.accept(s, b))),
            (Expr::Compl(a), ExprState::Compl(s)) => ExprState::Compl(Box::new(a.accept(s, b))),
            (Expr::Ref(a), s) => <&Expr as Automaton>::accept(&&**a, s, b),
            _ => unreachable!("state/automaton mismatch"),
        }
    }
}

fn leak(s: &str) -> &'static str {
    Box::leak(s.to_string().into_boxed_str())
}

#[derive(Clone, Debug)]
pub struct RefDfa {
    /// representative bytes, one per symbol class; the last one stands for "every other byte"
    pub alphabet: Vec<u8>,
    pub trans: Vec<Vec<usize>>,
    pub accept: Vec<bool>,
}

impl RefDfa {
    pub fn sym(&self, b: u8) -> usize {
        self.alphabet.iter().position(|&x| x == b).unwrap_or(self.alphabet.len() - 1)
    }
    pub fn run(&self, w: &[u8]) -> usize {
        let mut s = 0;
        for &b in w {
            s = self.trans[s][self.sym(b)];
        }
        s
    }
    pub fn exact_can(&self) -> Vec<bool> {
        let mut can = self.accept.clone();
        loop {
            let mut ch = false;
            for s in 0..can.len() {
                if !can[s] && self.trans[s].iter().any(|&t| can[t]) {
                    can[s] = true;
                    ch = true;
                }
            }
            if !ch {
                return can;
            }
        }
    }
    pub fn exact_always(&self) -> Vec<bool> {
        let mut bad: Vec<bool> = self.accept.iter().map(|a| !a).collect();
        loop {
            let mut ch = false;
            for s in 0..bad.len() {
                if !bad[s] && self.trans[s].iter().any(|&t| bad[t]) {
                    bad[s] = true;
                    ch = true;
                }
            }
            if !ch {
                return bad.iter().map(|b| !b).collect();
            }
        }
    }
    /// a shortest word reaching every state (BFS from the start state)
    pub fn representatives(&self) -> Vec<Vec<u8>> {
        let n = self.trans.len();
        let mut rep: Vec<Option<Vec<u8>>> = vec![None; n];
        rep[0] = Some(vec![]);
        let mut q = std::collections::VecDeque::new();
        q.push_back(0usize);
        while let Some(s) = q.pop_front() {
            for (i, &t) in self.trans[s].iter().enumerate() {
                if rep[t].is_none() {
                    let mut w = rep[s].clone().unwrap();
                    w.push(self.alphabet[i]);
                    rep[t] = Some(w);
                    q.push_back(t);
                }
            }
        }
        rep.into_iter().map(|r| r.expect("reference DFA has only reachable states")).collect()
    }
    fn trim(trans: Vec<Vec<usize>>, accept: Vec<bool>, alphabet: &[u8]) -> RefDfa {
        // keep reachable states only, renumbered in BFS order
        let mut id: HashMap<usize, usize> = HashMap::new();
        let mut order = vec![0usize];
        id.insert(0, 0);
        let mut i = 0;
        while i < order.len() {
            let s = order[i];
            for &t in &trans[s] {
                if !id.contains_key(&t) {
                    id.insert(t, order.len());
                    order.push(t);
                }
            }
            i += 1;
        }
        RefDfa { alphabet: alphabet.to_vec(), trans: order.iter().map(|&s| trans[s].iter().map(|t| id[t]).collect()).collect(), accept: order.iter().map(|&s| accept[s]).collect() }
    }
}

impl SpecE {
    pub fn to_expr(&self) -> Expr {
        match self {
            SpecE::Str(s) => Expr::Str(Str::new(leak(s))),
            SpecE::Subseq(s) => Expr::Subseq(Subsequence::new(leak(s))),
            SpecE::Always => Expr::Always(AlwaysMatch),
            SpecE::Dfa(d) => Expr::Dfa(d.clone()),
            SpecE::Lev(q, d) => Expr::Lev(Levenshtein::new(q, *d).expect("levenshtein within limit")),
            SpecE::StartsWith(a) => Expr::StartsWith(Box::new(a.to_expr().starts_with())),
            SpecE::Union(a, b) => Expr::Union(Box::new(a.to_expr().union(b.to_expr()))),
            SpecE::Inter(a, b) => Expr::Inter(Box::new(a.to_expr().intersection(b.to_expr()))),
            SpecE::Compl(a) => Expr::Compl(Box::new(a.to_expr().complement())),
            SpecE::Ref(a) => Expr::Ref(Box::new(a.to_expr())),
        }
    }

    /// brute-force membership
    pub fn matches(&self, w: &[u8]) -> bool {
        match self {
            SpecE::Str(s) => w == s.as_bytes(),
            SpecE::Subseq(s) => {
                let mut i = 0;
                let p = s.as_bytes();
                for &b in w {
                    if i < p.len() && p[i] == b {
                        i += 1;
                    }
                }
                i == p.len()
            }
            SpecE::Always => true,
            SpecE::Dfa(d) => d.accepts(w),
            SpecE::Lev(q, d) => match std::str::from_utf8(w) {
                Ok(k) => crate::levref::distance(q, k) <= *d as usize,
                Err(_) => false,
            },
            SpecE::StartsWith(a) => (0..=w.len()).any(|l| a.matches(&w[..l])),
            SpecE::Union(a, b) => a.matches(w) || b.matches(w),
            SpecE::Inter(a, b) => a.matches(w) && b.matches(w),
            SpecE::Compl(a) => !a.matches(w),
            SpecE::Ref(a) => a.matches(w),
        }
    }

    pub fn bytes_used(&self, out: &mut Vec<u8>) {
        match self {
            SpecE::Str(s) | SpecE::Subseq(s) => out.extend_from_slice(s.as_bytes()),
            SpecE::Lev(q, _) => out.extend_from_slice(q.as_bytes()),
            SpecE::Always => {}
            SpecE::Dfa(d) => {
                // bytes that are not in the "other" class
                for b in 0..256usize {
                    if d.cls[b] as usize != d.nclasses - 1 {
                        out.push(b as u8);
                    }
                }
                // one representative of the last class that was explicitly mapped, if any, is
                // indistinguishable from "other" and therefore needs no symbol of its own
            }
            SpecE::StartsWith(a) | SpecE::Compl(a) | SpecE::Ref(a) => a.bytes_used(out),
            SpecE::Union(a, b) | SpecE::Inter(a, b) => {
                a.bytes_used(out);
                b.bytes_used(out);
            }
        }
    }

    /// symbol classes: every byte used by a leaf individually + one representative of all the rest
    pub fn alphabet(&self) -> Vec<u8> {
        let mut a = vec![];
        self.bytes_used(&mut a);
        a.sort();
        a.dedup();
        let other = (0..=255u8).rev().find(|b| !a.contains(b)).expect("some byte is unused");
        a.push(other);
        a
    }

    pub fn ref_dfa(&self, alphabet: &[u8]) -> RefDfa {
        let k = alphabet.len();
        match self {
            SpecE::Str(s) => {
                let p = s.as_bytes();
                let dead = p.len() + 1;
                let mut trans = vec![vec![dead; k]; p.len() + 2];
                for i in 0..p.len() {
                    for (j, &b) in alphabet.iter().enumerate() {
                        if j + 1 < k && b == p[i] {
                            trans[i][j] = i + 1;
                        }
                    }
                }
                let mut accept = vec![false; p.len() + 2];
                accept[p.len()] = true;
                RefDfa::trim(trans, accept, alphabet)
            }
            SpecE::Subseq(s) => {
                let p = s.as_bytes();
                let mut trans: Vec<Vec<usize>> = (0..=p.len()).map(|i| vec![i; k]).collect();
                for i in 0..p.len() {
                    for (j, &b) in alphabet.iter().enumerate() {
                        if j + 1 < k && b == p[i] {
                            trans[i][j] = i + 1;
                        }
                    }
                }
                let mut accept = vec![false; p.len() + 1];
                accept[p.len()] = true;
                RefDfa::trim(trans, accept, alphabet)
            }
            SpecE::Always => RefDfa { alphabet: alphabet.to_vec(), trans: vec![vec![0; k]], accept: vec![true] },
            SpecE::Dfa(d) => {
                let trans = (0..d.nstates()).map(|s| alphabet.iter().map(|&b| d.trans[s][d.cls[b as usize] as usize]).collect()).collect();
                RefDfa::trim(trans, d.accept.clone(), alphabet)
            }
            SpecE::Lev(..) => panic!("no reference DFA for Levenshtein"),
            SpecE::Ref(a) => a.ref_dfa(alphabet),
            SpecE::Compl(a) => {
                let mut d = a.ref_dfa(alphabet);
                for x in d.accept.iter_mut() {
                    *x = !*x;
                }
                d
            }
            SpecE::StartsWith(a) => {
                // "has a prefix in L(a)": accepting states become one absorbing accepting state
                let d = a.ref_dfa(alphabet);
                let n = d.trans.len();
                let done = n;
                let mut trans: Vec<Vec<usize>> = d.trans.iter().map(|row| row.iter().map(|&t| if d.accept[t] { done } else { t }).collect()).collect();
                trans.push(vec![done; k]);
                let mut accept = vec![false; n + 1];
                accept[done] = true;
                if d.accept[0] {
                    // the empty prefix is already in L(a): everything matches
                    return RefDfa { alphabet: alphabet.to_vec(), trans: vec![vec![0; k]], accept: vec![true] };
                }
                RefDfa::trim(trans, accept, alphabet)
            }
            SpecE::Union(a, b) | SpecE::Inter(a, b) => {
                let da = a.ref_dfa(alphabet);
                let db = b.ref_dfa(alphabet);
                let is_union = matches!(self, SpecE::Union(..));
                let nb = db.trans.len();
                let mut id: HashMap<(usize, usize), usize> = HashMap::new();
                let mut order = vec![(0usize, 0usize)];
                id.insert((0, 0), 0);
                let mut trans: Vec<Vec<usize>> = vec![];
                let mut i = 0;
                while i < order.len() {
                    let (x, y) = order[i];
                    let mut row = vec![];
                    for j in 0..k {
                        let t = (da.trans[x][j], db.trans[y][j]);
                        let next = order.len();
                        let e = *id.entry(t).or_insert_with(|| next);
                        if e == next {
                            order.push(t);
                        }
                        row.push(e);
                    }
                    trans.push(row);
                    i += 1;
                }
                let _ = nb;
                let accept = order.iter().map(|&(x, y)| if is_union { da.accept[x] || db.accept[y] } else { da.accept[x] && db.accept[y] }).collect();
                RefDfa { alphabet: alphabet.to_vec(), trans, accept }
            }
        }
    }

    pub fn show(&self) -> String {
        match self {
            SpecE::Str(s) => format!("Str({:?})", s),
            SpecE::Subseq(s) => format!("Subsequence({:?})", s),
            SpecE::Always => "AlwaysMatch".into(),
            SpecE::Dfa(d) => format!("Dfa{{trans:{:?},accept:{:?},can_hint:{:?},always_hint:{:?}}}", d.trans, d.accept, d.can_hint, d.always_hint),
            SpecE::Lev(q, d) => format!("Levenshtein({:?},{})", q, d),
            SpecE::StartsWith(a) => format!("StartsWith({})", a.show()),
            SpecE::Union(a, b) => format!("Union({}, {})", a.show(), b.show()),
            SpecE::Inter(a, b) => format!("Intersection({}, {})", a.show(), b.show()),
            SpecE::Compl(a) => format!("Complement({})", a.show()),
            SpecE::Ref(a) => format!("&{}", a.show()),
        }
    }
    pub fn depth(&self) -> usize {
        match self {
            SpecE::StartsWith(a) | SpecE::Compl(a) | SpecE::Ref(a) => 1 + a.depth(),
            SpecE::Union(a, b) | SpecE::Inter(a, b) => 1 + a.depth().max(b.depth()),
            _ => 0,
        }
    }
    pub fn has_lev(&self) -> bool {
        match self {
            SpecE::Lev(..) => true,
            SpecE::StartsWith(a) | SpecE::Compl(a) | SpecE::Ref(a) => a.has_lev(),
            SpecE::Union(a, b) | SpecE::Inter(a, b) => a.has_lev() || b.has_lev(),
            _ => false,
        }
    }
}
