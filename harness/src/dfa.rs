//! Explicit DFAs over byte classes implementing fst::Automaton, with exact dead/always sets computed
//! by graph reachability and hint assignments anywhere between exact and trivial (always sound).
use crate::rng::Rng;
use fst::Automaton;

#[derive(Clone, Debug)]
pub struct Dfa {
    pub nclasses: usize,
    /// byte -> class
    pub cls: Vec<u8>,
    /// trans[state][class]
    pub trans: Vec<Vec<usize>>,
    pub accept: Vec<bool>,
    /// hints handed to the library (sound: can_hint >= exact can, always_hint <= exact always)
    pub can_hint: Vec<bool>,
    pub always_hint: Vec<bool>,
}

impl Dfa {
    pub fn nstates(&self) -> usize {
        self.trans.len()
    }
    /// class table: bytes in `sigma` get classes round-robin, every other byte gets the last class
    pub fn class_table(sigma: &[u8], nclasses: usize) -> Vec<u8> {
        let mut cls = vec![(nclasses - 1) as u8; 256];
        for (i, &b) in sigma.iter().enumerate() {
            cls[b as usize] = (i % nclasses) as u8;
        }
        cls
    }
    pub fn new(nclasses: usize, cls: Vec<u8>, trans: Vec<Vec<usize>>, accept: Vec<bool>) -> Dfa {
        let n = trans.len();
        let mut d = Dfa { nclasses, cls, trans, accept, can_hint: vec![true; n], always_hint: vec![false; n] };
        d.can_hint = d.exact_can();
        d.always_hint = d.exact_always();
        d
    }
    /// exact: an accepting state is reachable in >= 0 steps
    pub fn exact_can(&self) -> Vec<bool> {
        let n = self.nstates();
        let mut can = self.accept.clone();
        loop {
            let mut ch = false;
            for s in 0..n {
                if !can[s] && self.trans[s].iter().any(|&t| can[t]) {
                    can[s] = true;
                    ch = true;
                }
            }
            if !ch {
                break;
            }
        }
        can
    }
    /// exact: every state reachable in >= 0 steps accepts
    pub fn exact_always(&self) -> Vec<bool> {
        let n = self.nstates();
        // bad = can reach a non-accepting state
        let mut bad: Vec<bool> = self.accept.iter().map(|a| !a).collect();
        loop {
            let mut ch = false;
            for s in 0..n {
                if !bad[s] && self.trans[s].iter().any(|&t| bad[t]) {
                    bad[s] = true;
                    ch = true;
                }
            }
            if !ch {
                break;
            }
        }
        bad.iter().map(|b| !b).collect()
    }
    pub fn with_trivial_hints(&self) -> Dfa {
        let mut d = self.clone();
        d.can_hint = vec![true; self.nstates()];
        d.always_hint = vec![false; self.nstates()];
        d
    }
    /// every sound hint assignment (weaken any subset of the informative hints); capped
    pub fn all_hint_variants(&self, cap: usize) -> Vec<Dfa> {
        let can = self.exact_can();
        let alw = self.exact_always();
        let mut slots: Vec<(bool, usize)> = vec![];
        for s in 0..self.nstates() {
            if !can[s] {
                slots.push((true, s));
            }
            if alw[s] {
                slots.push((false, s));
            }
        }
        let total = 1usize << slots.len().min(20);
        let mut out = vec![];
        for m in 0..total.min(cap) {
            let mut d = self.clone();
            d.can_hint = can.clone();
            d.always_hint = alw.clone();
            for (i, &(is_can, s)) in slots.iter().enumerate() {
                if m >> i & 1 == 1 {
                    if is_can {
                        d.can_hint[s] = true;
                    } else {
                        d.always_hint[s] = false;
                    }
                }
            }
            out.push(d);
        }
        out
    }
    pub fn weaken_randomly(&self, rng: &mut Rng) -> Dfa {
        let mut d = self.clone();
        d.can_hint = self.exact_can();
        d.always_hint = self.exact_always();
        for s in 0..self.nstates() {
            if rng.chance(1, 2) {
                d.can_hint[s] = true;
            }
            if rng.chance(1, 2) {
                d.always_hint[s] = false;
            }
        }
        d
    }
    pub fn run(&self, key: &[u8]) -> usize {
        let mut s = 0;
        for &b in key {
            s = self.trans[s][self.cls[b as usize] as usize];
        }
        s
    }
    pub fn accepts(&self, key: &[u8]) -> bool {
        self.accept[self.run(key)]
    }
    pub fn random(rng: &mut Rng, max_states: usize, sigma: &[u8]) -> Dfa {
        let n = 1 + rng.usize(max_states);
        let nclasses = 2 + rng.usize(3);
        let trans = (0..n).map(|_| (0..nclasses).map(|_| rng.usize(n)).collect()).collect();
        let accept = (0..n).map(|_| rng.chance(1, 3)).collect();
        Dfa::new(nclasses, Dfa::class_table(sigma, nclasses), trans, accept)
    }
    /// all DFAs with exactly `n` states over 2 classes (start state 0)
    pub fn enumerate(n: usize, sigma: &[u8]) -> Vec<Dfa> {
        let mut out = vec![];
        let ntrans = n * 2;
        let mut total = 1usize;
        for _ in 0..ntrans {
            total *= n;
        }
        for t in 0..total {
            let mut x = t;
            let mut trans = vec![vec![0usize; 2]; n];
            for s in 0..n {
                for c in 0..2 {
                    trans[s][c] = x % n;
                    x /= n;
                }
            }
            for acc in 0..(1usize << n) {
                let accept: Vec<bool> = (0..n).map(|s| acc >> s & 1 == 1).collect();
                out.push(Dfa::new(2, Dfa::class_table(sigma, 2), trans.clone(), accept));
            }
        }
        out
    }
    pub fn describe(&self) -> crate::json::J {
        use crate::json::J;
        J::obj(vec![
            ("states", J::U(self.nstates() as u64)),
            ("classes", J::U(self.nclasses as u64)),
            ("trans", J::s(format!("{:?}", self.trans))),
            ("accept", J::s(format!("{:?}", self.accept))),
            ("can_hint", J::s(format!("{:?}", self.can_hint))),
            ("always_hint", J::s(format!("{:?}", self.always_hint))),
        ])
    }
}

impl Automaton for Dfa {
    type State = usize;
    fn start(&self) -> usize {
        0
    }
    fn is_match(&self, s: &usize) -> bool {
        self.accept[*s]
    }
    fn can_match(&self, s: &usize) -> bool {
        self.can_hint[*s]
    }
    fn will_always_match(&self, s: &usize) -> bool {
        self.always_hint[*s]
    }
    fn accept(&self, s: &usize, b: u8) -> usize {
        self.trans[*s][self.cls[b as usize] as usize]
    }
}
