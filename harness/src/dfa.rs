//! TODO
