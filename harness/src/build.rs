//! Building FSTs through every public front end; cache statistics via hook H2.
use crate::gen::Kv;
use fst::raw::{self, Builder, Fst, Output};
use fst::{IntoStreamer, Map, MapBuilder, Set, SetBuilder, Streamer};

pub const GEOMS: [(usize, usize); 6] = [(10_000, 2), (0, 0), (1, 1), (1, 3), (7, 2), (64, 2)];

#[derive(Clone, Copy, Debug, PartialEq, Eq)]
pub enum Front {
    /// raw::Builder via hook H1 with the given cache geometry; insert (maps) / add (sets)
    RawGeom(usize, usize),
    RawMemoryInsert,
    /// raw::Builder fed through BOTH entry points: add(k) for entries whose value is 0, insert(k, v) for the others
    RawMixed,
    /// raw::Builder fed through ALL its entry points in one session: runs of entries go through extend_iter / extend_stream,
    /// single entries through add (value 0) or insert
    RawMixedBulk,
    /// raw::Builder where every other key is offered a second time through add() right after it was accepted: by the set rule
    /// a repeat is a no-op, so the result must be the one of a build without the repeats
    RawMixedRepeats,
    /// MapBuilder that is offered every third key a second time with a SMALLER value (rejected as a duplicate) and the previous key
    /// again (rejected as out of order) and carries on: rejected calls leave no trace
    MapRejectedCalls,
    RawAdd,
    RawNewVec,
    RawExtendIter,
    RawExtendStream,
    RawFromIter,
    /// raw::Builder on a hostile sink (random short accepts and Interrupted), returns what the sink holds
    RawShortSink,
    MapInsert,
    MapExtendIter,
    MapExtendStream,
    MapFromIter,
    SetInsert,
    SetExtendIter,
    SetExtendStream,
    SetFromIter,
}

pub const MAP_FRONTS: [Front; 14] = [
    Front::MapRejectedCalls,
    Front::RawShortSink,
    Front::RawMixed,
    Front::RawMixedBulk,
    Front::RawMixedRepeats,
    Front::RawMemoryInsert,
    Front::RawNewVec,
    Front::RawExtendIter,
    Front::RawExtendStream,
    Front::RawFromIter,
    Front::MapInsert,
    Front::MapExtendIter,
    Front::MapExtendStream,
    Front::MapFromIter,
];
pub const SET_FRONTS: [Front; 5] = [Front::RawAdd, Front::SetInsert, Front::SetExtendIter, Front::SetExtendStream, Front::SetFromIter];

#[derive(Default, Clone, Copy, Debug)]
pub struct Stats {
    pub lookups: u64,
    pub hits: u64,
    pub misses: u64,
    pub evictions: u64,
}

pub fn stats_reset() {
    raw::verif::reset();
}
pub fn stats() -> Stats {
    let s = raw::verif::snapshot();
    Stats { lookups: s.lookups, hits: s.hits, misses: s.misses, evictions: s.evictions }
}

fn e<T, E: std::fmt::Display>(r: Result<T, E>) -> Result<T, String> {
    r.map_err(|e| format!("{}", e))
}

/// a plain user stream over a sorted vector (lends its own buffer)
pub struct VecStream<'a> {
    pub items: &'a [(Vec<u8>, u64)],
    pub pos: usize,
    pub buf: Vec<u8>,
}
impl<'a> VecStream<'a> {
    pub fn new(items: &'a [(Vec<u8>, u64)]) -> VecStream<'a> {
        VecStream { items, pos: 0, buf: vec![] }
    }
}
impl<'s, 'a> Streamer<'s> for VecStream<'a> {
    type Item = (&'s [u8], Output);
    fn next(&'s mut self) -> Option<(&'s [u8], Output)> {
        if self.pos >= self.items.len() {
            return None;
        }
        let (k, v) = &self.items[self.pos];
        self.pos += 1;
        self.buf.clear();
        self.buf.extend_from_slice(k);
        Some((&self.buf, Output::new(*v)))
    }
}
/// the same for the map flavour (&[u8], u64)
pub struct VecMapStream<'a>(pub VecStream<'a>);
impl<'s, 'a> Streamer<'s> for VecMapStream<'a> {
    type Item = (&'s [u8], u64);
    fn next(&'s mut self) -> Option<(&'s [u8], u64)> {
        self.0.next().map(|(k, v)| (k, v.value()))
    }
}
pub struct VecSetStream<'a>(pub VecStream<'a>);
impl<'s, 'a> Streamer<'s> for VecSetStream<'a> {
    type Item = &'s [u8];
    fn next(&'s mut self) -> Option<&'s [u8]> {
        self.0.next().map(|(k, _)| k)
    }
}

/// Build `kv` through `front`; returns the produced bytes. `ty` only applies to RawGeom.
pub fn build(front: Front, kv: &Kv) -> Result<Vec<u8>, String> {
    match front {
        Front::RawGeom(r, c) => {
            let mut b = e(Builder::verif_new_with_cache(Vec::new(), 0, r, c))?;
            let all_zero = kv.iter().all(|(_, v)| *v == 0);
            for (k, v) in kv {
                if all_zero && (r + c) % 2 == 1 {
                    e(b.add(k))?;
                } else {
                    e(b.insert(k, *v))?;
                }
            }
            e(b.into_inner())
        }
        Front::RawMemoryInsert => {
            let mut b = Builder::memory();
            for (k, v) in kv {
                e(b.insert(k, *v))?;
            }
            e(b.into_inner())
        }
        Front::RawMixed => {
            let mut b = Builder::memory();
            for (k, v) in kv {
                if *v == 0 {
                    e(b.add(k))?;
                } else {
                    e(b.insert(k, *v))?;
                }
            }
            e(b.into_inner())
        }
        Front::MapRejectedCalls => {
            let mut b = MapBuilder::memory();
            let mut prev: Option<&Vec<u8>> = None;
            for (i, (k, v)) in kv.iter().enumerate() {
                e(b.insert(k, *v))?;
                if i % 3 == 0 {
                    if b.insert(k, *v / 2).is_ok() {
                        return Err("a duplicate key was accepted".into());
                    }
                    if let Some(p) = prev {
                        if b.insert(p, *v).is_ok() {
                            return Err("an out-of-order key was accepted".into());
                        }
                    }
                }
                prev = Some(k);
            }
            e(b.into_inner())
        }
        Front::RawMixedRepeats => {
            let mut b = Builder::memory();
            for (i, (k, v)) in kv.iter().enumerate() {
                if *v == 0 && i % 3 == 0 {
                    e(b.add(k))?;
                } else {
                    e(b.insert(k, *v))?;
                }
                if i % 2 == 0 {
                    e(b.add(k))?;
                    if i % 4 == 0 {
                        e(b.add(k))?;
                    }
                }
            }
            e(b.into_inner())
        }
        Front::RawMixedBulk => {
            let mut b = Builder::memory();
            let mut i = 0;
            let mut turn = kv.len();
            while i < kv.len() {
                turn += 1;
                // runs of 1..3 entries; which entry point takes the run rotates with the position
                let n = (1 + (turn + i) % 3).min(kv.len() - i);
                let chunk = &kv[i..i + n];
                match turn % 4 {
                    0 => e(b.extend_iter(chunk.iter().map(|(k, v)| (k.clone(), Output::new(*v)))))?,
                    1 => e(b.extend_stream(VecStream::new(chunk)))?,
                    _ => {
                        for (k, v) in chunk {
                            if *v == 0 {
                                e(b.add(k))?;
                            } else {
                                e(b.insert(k, *v))?;
                            }
                        }
                    }
                }
                i += n;
            }
            e(b.into_inner())
        }
        Front::RawAdd => {
            let mut b = Builder::memory();
            for (k, _) in kv {
                e(b.add(k))?;
            }
            Ok(b.into_fst().into_inner())
        }
        Front::RawNewVec => {
            let mut b = e(Builder::new_type(Vec::new(), 0))?;
            for (k, v) in kv {
                e(b.insert(k, *v))?;
            }
            e(b.into_inner())
        }
        Front::RawExtendIter => {
            let mut b = e(Builder::new(Vec::new()))?;
            e(b.extend_iter(kv.iter().map(|(k, v)| (k.clone(), Output::new(*v)))))?;
            e(b.into_inner())
        }
        Front::RawExtendStream => {
            let mut b = e(Builder::new(Vec::new()))?;
            e(b.extend_stream(VecStream::new(kv)))?;
            e(b.into_inner())
        }
        Front::RawShortSink => {
            let sink = crate::sinks::Sink::new(crate::sinks::Policy::Random(kv.len() as u64 * 31 + kv.first().map(|e| e.1).unwrap_or(7)));
            let mut b = e(Builder::new(sink.clone()))?;
            for (k, v) in kv {
                e(b.insert(k, *v))?;
            }
            e(b.finish())?;
            Ok(sink.committed_data())
        }
        Front::RawFromIter => {
            let f = e(Fst::from_iter_map(kv.iter().map(|(k, v)| (k, *v))))?;
            Ok(f.into_inner())
        }
        Front::MapInsert => {
            let mut b = MapBuilder::memory();
            for (k, v) in kv {
                e(b.insert(k, *v))?;
            }
            e(b.into_inner())
        }
        Front::MapExtendIter => {
            let mut b = e(MapBuilder::new(Vec::new()))?;
            e(b.extend_iter(kv.iter().map(|(k, v)| (k, *v))))?;
            e(b.into_inner())
        }
        Front::MapExtendStream => {
            let mut b = MapBuilder::memory();
            e(b.extend_stream(VecMapStream(VecStream::new(kv))))?;
            Ok(b.into_map().into_fst().into_inner())
        }
        Front::MapFromIter => {
            let m = e(Map::from_iter(kv.iter().map(|(k, v)| (k, *v))))?;
            Ok(m.into_fst().into_inner())
        }
        Front::SetInsert => {
            let mut b = SetBuilder::memory();
            for (k, _) in kv {
                e(b.insert(k))?;
            }
            e(b.into_inner())
        }
        Front::SetExtendIter => {
            let mut b = e(SetBuilder::new(Vec::new()))?;
            e(b.extend_iter(kv.iter().map(|(k, _)| k)))?;
            e(b.into_inner())
        }
        Front::SetExtendStream => {
            let mut b = SetBuilder::memory();
            e(b.extend_stream(VecSetStream(VecStream::new(kv))))?;
            Ok(b.into_set().into_fst().into_inner())
        }
        Front::SetFromIter => {
            let s = e(Set::from_iter(kv.iter().map(|(k, _)| k)))?;
            Ok(s.into_fst().into_inner())
        }
    }
}

/// a small map over a tiny alphabet: the same node shapes recur from build to build, at different addresses
pub fn tiny_map(r: &mut crate::rng::Rng) -> Kv {
    let alpha = [b'a', b'b', b'k', b'x', b'z'];
    let n = 1 + r.usize(9);
    let mut m: std::collections::BTreeMap<Vec<u8>, u64> = Default::default();
    for _ in 0..n {
        let l = r.usize(4);
        let k: Vec<u8> = (0..l).map(|_| *r.pick(&alpha)).collect();
        m.insert(k, if r.chance(1, 3) { 0 } else { r.below(40) });
    }
    m.into_iter().collect()
}

fn plain_build(which: usize, kv: &Kv) -> Result<Vec<u8>, String> {
    match which % 3 {
        0 => build(Front::RawMemoryInsert, kv),
        1 => build(Front::MapInsert, kv),
        _ => {
            if kv.iter().all(|(_, v)| *v == 0) {
                build(Front::SetInsert, kv)
            } else {
                build(Front::MapExtendIter, kv)
            }
        }
    }
}

/// SCENARIO "series": `n` small builds one after another on ONE fresh thread through the plain entry points (no hook geometry), every
/// 7th builder abandoned half-way. Returns (what was inserted, what the builder produced) per finished build.
pub fn series_on_one_thread(seed: u64, n: usize) -> Vec<(Kv, Result<Vec<u8>, String>)> {
    std::thread::spawn(move || {
        let mut r = crate::rng::Rng::new(seed, 0x5e21e5);
        let mut out = vec![];
        // very long series are SPARSE: almost all builds are trivial (they touch next to nothing of whatever a thread might keep
        // between builders); markers are small maps containing one node of a shape that occurs NOWHERE else in the series except in
        // its partner marker, exactly 256 or exactly 65536 builders later, where the same node sits at another address. (A per-thread
        // "generation" of 8 or 16 bits comes round again after exactly that many builders.)
        let sparse = n > 20_000;
        let marker = |j: usize, second: bool| -> Kv {
            let (x, y) = (0x30 + (j % 64) as u8, 0x80 + (j / 64) as u8);
            if second {
                vec![(b"0q".to_vec(), 0), (vec![b'x', b'a', x], 0), (vec![b'x', b'a', y], 0)]
            } else {
                vec![(vec![b'a', x], 0), (vec![b'a', y], 0)]
            }
        };
        for i in 0..n {
            if sparse {
                let kv: Kv = if i % 256 == 0 && i / 256 < 256 {
                    marker(i / 256, false)
                } else if i >= 65536 && (i - 65536) % 256 == 0 && (i - 65536) / 256 < 256 {
                    marker((i - 65536) / 256, true)
                } else if i % 512 == 128 {
                    marker(256 + (i / 512) % 256, false)
                } else if i % 512 == 384 {
                    marker(256 + (i / 512) % 256, true)
                } else if i % 2 == 0 {
                    vec![]
                } else {
                    vec![(b"t".to_vec(), (i % 5) as u64)]
                };
                let res = std::panic::catch_unwind(|| plain_build(0, &kv)).unwrap_or_else(|_| Err("the build panicked".into()));
                out.push((kv, res));
                continue;
            }
            let kv = tiny_map(&mut r);
            if i % 7 == 3 {
                let mut b = Builder::memory();
                for (k, v) in kv.iter().take(1 + kv.len() / 2) {
                    let _ = b.insert(k, *v);
                }
                let _ = b.insert("", 1); // rejected unless nothing was inserted
                drop(b);
                continue;
            }
            let res = std::panic::catch_unwind(|| plain_build(i, &kv)).unwrap_or_else(|_| Err("the build panicked".into()));
            out.push((kv, res));
        }
        out
    })
    .join()
    .unwrap_or_default()
}

/// SCENARIO "migration": a thread P finishes `p` builds, starts one more and hands the half-filled builder to a FRESH thread Q, which
/// finishes it and then runs `q` builds of its own; optionally Q hands a half-filled builder back to P. Builders are Send.
pub fn migration(seed: u64, p: usize, q: usize) -> Vec<(Kv, Result<Vec<u8>, String>)> {
    std::thread::spawn(move || {
        let mut r = crate::rng::Rng::new(seed, 0x316a);
        let mut out = vec![];
        for i in 0..p {
            let kv = tiny_map(&mut r);
            let res = std::panic::catch_unwind(|| plain_build(i, &kv)).unwrap_or_else(|_| Err("the build panicked".into()));
            out.push((kv, res));
        }
        let moving = tiny_map(&mut r);
        let mut b = Builder::memory();
        let half = moving.len() / 2;
        for (k, v) in moving.iter().take(half) {
            let _ = b.insert(k, *v);
        }
        let rest: Kv = moving[half..].to_vec();
        let mut r2 = crate::rng::Rng::new(seed, 0x316b);
        let q_results = std::thread::spawn(move || {
            let mut out = vec![];
            let fin = std::panic::catch_unwind(std::panic::AssertUnwindSafe(move || {
                for (k, v) in &rest {
                    e(b.insert(k, *v))?;
                }
                e(b.into_inner())
            }))
            .unwrap_or_else(|_| Err("finishing the migrated builder panicked".into()));
            out.push((None, fin));
            for i in 0..q {
                let kv = tiny_map(&mut r2);
                let res = std::panic::catch_unwind(|| plain_build(i + 1, &kv)).unwrap_or_else(|_| Err("the build panicked".into()));
                out.push((Some(kv), res));
            }
            out
        })
        .join()
        .unwrap_or_default();
        for (kv, res) in q_results {
            out.push((kv.unwrap_or_else(|| moving.clone()), res));
        }
        // and P goes on building after the hand-over
        for i in 0..3 {
            let kv = tiny_map(&mut r);
            let res = std::panic::catch_unwind(|| plain_build(i + 2, &kv)).unwrap_or_else(|_| Err("the build panicked".into()));
            out.push((kv, res));
        }
        out
    })
    .join()
    .unwrap_or_default()
}

/// all builds of a few history scenarios (series on one thread + migrations), labelled; shared by the checks that judge built bytes
pub fn history_builds(seed: u64, nseries: usize, per_series: usize, nmigrations: usize) -> Vec<(String, Kv, Result<Vec<u8>, String>)> {
    let mut out = vec![];
    let series: Vec<Vec<(Kv, Result<Vec<u8>, String>)>> = std::thread::scope(|sc| {
        let hs: Vec<_> = (0..nseries).map(|i| sc.spawn(move || series_on_one_thread(seed * 1000 + i as u64, per_series))).collect();
        hs.into_iter().map(|h| h.join().unwrap_or_default()).collect()
    });
    for (si, s) in series.into_iter().enumerate() {
        let n = s.len();
        for (bi, (kv, res)) in s.into_iter().enumerate() {
            out.push((format!("build #{} of series {} ({} small builds on one thread, every 7th builder abandoned)", bi, si, n), kv, res));
        }
    }
    for m in 0..nmigrations {
        let (p, q) = (m % 7, 1 + (m / 7) % 9);
        for (bi, (kv, res)) in migration(seed * 7919 + m as u64, p, q).into_iter().enumerate() {
            out.push((format!("build #{} of a migration scenario (thread P: {} builds, then a half-filled builder moves to a fresh thread Q, which finishes it and builds {} more)", bi, p, q), kv, res));
        }
    }
    out
}

/// HISTORY for the thread that is about to run judged operations: none of the properties allows an operation to depend on what the
/// thread (or process) did before, so the monitors interleave their judged work with unrelated library use whose traces a
/// stateful implementation (thread-locals, statics, pools, caches keyed by address) would carry over: builders abandoned after a
/// rejected or failed call, builders that migrate between threads, bounded streams over long keys read to their end or dropped
/// half-way, set operations abandoned after their first key, repeated verify() calls, lookups on short-lived FSTs at recycled
/// addresses. Nothing here is judged (panics are swallowed); the judged operations that follow are.
pub fn history_noise(n: usize) {
    let _ = std::panic::catch_unwind(std::panic::AssertUnwindSafe(|| {
        let long = |i: usize| format!("/home/noise/documents/2024/{:04}/entry-{}", i * 7 % 50, "x".repeat(i % 23)).into_bytes();
        // abandoned builders: after accepted keys, after a rejected key, after a failed sink
        {
            let mut b = Builder::memory();
            let _ = b.insert("nx", 1 + n as u64);
            let _ = b.insert("nxa", 2);
            let _ = b.insert("na", 3); // rejected
            if n % 2 == 0 {
                let _ = b.insert("nxa", 1); // rejected duplicate with a smaller value
            }
        }
        {
            let mut b = SetBuilder::memory();
            let _ = b.insert("");
            let _ = b.insert(long(n));
        }
        {
            let sink = crate::sinks::Sink::new(crate::sinks::Policy::Capacity { total: 17 + n % 9, chunk: 3, fault: crate::sinks::Fault::Zero });
            if let Ok(mut b) = MapBuilder::new(sink) {
                let _ = b.insert("a", 1);
                let _ = b.insert("ab", 2);
                let _ = b.insert("b", 3);
            }
        }
        // a build with a wide node (256-byte index) on a device that fills up somewhere else each time: over many rounds the
        // failure lands in every kind of emission, also in the middle of an index table
        {
            let total = 16 + (n.wrapping_mul(37)) % 420;
            let sink = crate::sinks::Sink::new(crate::sinks::Policy::Capacity { total, chunk: [usize::MAX, 7, 100][n % 3], fault: if n % 2 == 0 { crate::sinks::Fault::Zero } else { crate::sinks::Fault::Err(std::io::ErrorKind::Other) } });
            if let Ok(mut b) = Builder::new(sink) {
                for c in 0..40u8 {
                    if b.insert([b'!' + c * 2 + (n % 2) as u8], c as u64 * 300).is_err() {
                        break;
                    }
                }
                let _ = b.finish();
            }
        }
        // a builder that migrates between threads (both directions)
        if n % 5 == 0 {
            let mut b = Builder::memory();
            let _ = b.insert("ka", 1);
            let _ = b.insert("kb", 2);
            let _ = std::thread::spawn(move || {
                let _ = b.insert("kc", 3);
                let _ = b.into_inner();
            })
            .join();
            if let Ok(mut b2) = std::thread::spawn(|| {
                let mut b = Builder::memory();
                let _ = b.insert("xa", 10);
                let _ = b.insert("xb", 20);
                b
            })
            .join()
            {
                let _ = b2.insert("xc", 30);
                let _ = b2.into_inner();
            }
        }
        // a small FST with long keys, living at a heap address that will be recycled
        let mut keys: Vec<Vec<u8>> = (0..40).map(|i| long(i + n)).collect();
        keys.push(b"banana".to_vec());
        keys.sort();
        keys.dedup();
        let mut b = Builder::memory();
        for (i, k) in keys.iter().enumerate() {
            let _ = b.insert(k, (i as u64) * 3);
        }
        let bytes = b.into_inner().unwrap_or_default();
        if let Ok(f) = Fst::new(&bytes[..]) {
            let _ = f.verify();
            let _ = f.verify();
            let mid = &keys[keys.len() / 2];
            // bounded streams read to the end (the upper bound cuts them off) and streams dropped half-way
            let mut s = f.range().le(mid).into_stream();
            while let Some(_) = s.next() {}
            drop(s);
            let mut s = f.range().ge(&keys[3]).lt(mid).into_stream();
            while let Some(_) = s.next() {}
            drop(s);
            let mut s = f.range().gt(mid).into_stream();
            let _ = s.next();
            let _ = s.next();
            drop(s);
            let mut s = f.search(fst::automaton::Subsequence::new("noise")).le(mid).into_stream();
            while let Some(_) = s.next() {}
            drop(s);
            // set operations over many streams, abandoned after the first key
            let mut ob = fst::raw::OpBuilder::new();
            for _ in 0..7 {
                ob.push(&f);
            }
            let mut u = ob.union();
            let _ = u.next();
            drop(u);
            let mut ob = fst::raw::OpBuilder::new();
            for _ in 0..5 {
                ob.push(f.range().ge(&keys[1]));
            }
            let mut x = ob.intersection();
            let _ = x.next();
            drop(x);
            let _ = f.get(mid);
            let _ = f.contains_key(b"banana");
            let mut buf = vec![b'#'; 300];
            let _ = f.get_key_into(9, &mut buf);
        }
        // (the epilogue below decides what this thread did LAST before the next judged operation)
        // the same bytes again at (possibly) the same address under another version label
        let mut again = bytes.clone();
        if again.len() > 40 {
            again[0] = 2;
            again.truncate(again.len() - 4);
            if let Ok(f) = Fst::new(&again[..]) {
                let _ = f.get(&keys[0]);
                let _ = f.verify();
            }
        }
        // EPILOGUE: successful library use "heals" most leftovers (the next builder or stream consumes or resets them), so the very
        // last thing the thread does before the judged operation rotates over the kinds of unfinished business
        match n % 4 {
            0 => {
                // a wide node whose single large write fails half-way
                let total = 40 + (n / 4 * 53) % 200;
                let sink = crate::sinks::Sink::new(crate::sinks::Policy::Capacity { total, chunk: usize::MAX, fault: crate::sinks::Fault::Err(std::io::ErrorKind::Other) });
                if let Ok(mut b) = Builder::new(sink) {
                    for c in 0..40u8 {
                        if b.insert([b'#' + c * 2], c as u64 * 300 + 1).is_err() {
                            break;
                        }
                    }
                    let _ = b.finish();
                }
            }
            1 => {
                // a builder abandoned with keys on its unfinished stack
                let mut b = Builder::memory();
                let _ = b.insert("qa", 4);
                let _ = b.insert("qab", 5);
                let _ = b.insert("qb", 1);
            }
            2 => {
                // a small node whose write fails after one byte, then nothing else
                let sink = crate::sinks::Sink::new(crate::sinks::Policy::Capacity { total: 17, chunk: 1, fault: crate::sinks::Fault::Zero });
                if let Ok(mut b) = Builder::new(sink) {
                    let _ = b.insert("a", 1);
                    let _ = b.insert("ab", 2);
                    let _ = b.insert("b", 3);
                    let _ = b.insert("c", 3);
                    let _ = b.finish();
                }
            }
            _ => {
                // a bounded stream over long keys read to its end, and a set operation abandoned after its first key
                let mut keys: Vec<Vec<u8>> = (0..12).map(|i| long(i + n)).collect();
                keys.sort();
                keys.dedup();
                let mut b = Builder::memory();
                for (i, k) in keys.iter().enumerate() {
                    let _ = b.insert(k, i as u64);
                }
                if let Ok(bytes) = b.into_inner() {
                    if let Ok(f) = Fst::new(&bytes[..]) {
                        let mut ob = fst::raw::OpBuilder::new();
                        for _ in 0..6 {
                            ob.push(&f);
                        }
                        let mut u = ob.union();
                        let _ = u.next();
                        drop(u);
                        let mut st = f.range().lt(&keys[keys.len() - 2]).into_stream();
                        while let Some(_) = st.next() {}
                    }
                }
            }
        }
    }));
}

/// record the structural classes of a decoded artifact (decoder-derived coverage)
pub fn node_histogram(d: &crate::refdec::Decoded, ev: &mut crate::ctx::Ev) {
    for (_, n) in &d.nodes {
        ev.count(["cov:form=OTN", "cov:form=OT", "cov:form=AT"][n.form as usize]);
        let f = n.trans.len();
        let fc = match f {
            0 => "cov:fanout=0",
            1 => "cov:fanout=1",
            2..=32 => "cov:fanout=2..32",
            33..=63 => "cov:fanout=33..63",
            64..=255 => "cov:fanout=64..255",
            _ => "cov:fanout=256",
        };
        ev.count(fc);
        if n.form != 0 {
            ev.count(&format!("cov:osize={}", n.osize));
            if f > 0 {
                ev.count(&format!("cov:tsize={}", n.tsize));
            }
        }
        if n.is_final {
            ev.count(if n.final_out != 0 { "cov:final-with-output" } else { "cov:final-no-output" });
        }
        if n.has_index {
            ev.count("cov:index-present");
        }
        if n.form != 2 {
            ev.count(if n.common { "cov:input-common" } else { "cov:input-explicit" });
        }
        if n.trans.iter().any(|t| t.2 == 0) {
            ev.count("cov:trans-to-sentinel");
        }
    }
    ev.count("cov:files-decoded");
}

/// Floors that make a run inconclusive when missed. Only classes that follow from the harness' own INPUTS are gated
/// (how often each generator family ran); what the decoder finds in the produced bytes (node forms, pack widths,
/// common-input use) depends on the encoder's policy and is recorded as evidence only.
pub fn structural_floors(thorough: bool) -> Vec<(&'static str, u64)> {
    let mut v = vec![
        ("family:ab3-subsets", 90_000),
        ("family:fanout", 700),
        ("family:fanout-x-width", 100),
        ("family:duplicated-wide-fans", 80),
        ("family:cache-digest-collision", 80),
        ("family:fan-then-single-path-to-the-shared-suffix", 150),
        ("family:recurring-wide-nodes-after-filler", 6),
        ("family:single-bytes", 500),
        ("family:long-keys", 16),
        ("family:dense-product", 6),
        ("family:corpus", 4),
        ("family:random", 1000),
        ("family:bulk", 4),
    ];
    if thorough {
        v.push(("family:abc2-subsets", 40_000));
    }
    v
}
