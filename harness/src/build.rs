//! Building FSTs through every public front end; cache statistics via hook H2.
use crate::gen::Kv;
use fst::raw::{self, Builder, Fst, Output};
use fst::{Map, MapBuilder, Set, SetBuilder, Streamer};

pub const GEOMS: [(usize, usize); 6] = [(10_000, 2), (0, 0), (1, 1), (1, 3), (7, 2), (64, 2)];

#[derive(Clone, Copy, Debug, PartialEq, Eq)]
pub enum Front {
    /// raw::Builder via hook H1 with the given cache geometry; insert (maps) / add (sets)
    RawGeom(usize, usize),
    RawMemoryInsert,
    /// raw::Builder fed through BOTH entry points: add(k) for entries whose value is 0, insert(k, v) for the others
    RawMixed,
    /// raw::Builder fed through ALL its entry points in one session: runs of entries go through extend_iter / extend_stream,
    /// single entries through add (value 0) or insert
    RawMixedBulk,
    RawAdd,
    RawNewVec,
    RawExtendIter,
    RawExtendStream,
    RawFromIter,
    /// raw::Builder on a hostile sink (random short accepts and Interrupted), returns what the sink holds
    RawShortSink,
    MapInsert,
    MapExtendIter,
    MapExtendStream,
    MapFromIter,
    SetInsert,
    SetExtendIter,
    SetExtendStream,
    SetFromIter,
}

pub const MAP_FRONTS: [Front; 12] = [
    Front::RawShortSink,
    Front::RawMixed,
    Front::RawMixedBulk,
    Front::RawMemoryInsert,
    Front::RawNewVec,
    Front::RawExtendIter,
    Front::RawExtendStream,
    Front::RawFromIter,
    Front::MapInsert,
    Front::MapExtendIter,
    Front::MapExtendStream,
    Front::MapFromIter,
];
pub const SET_FRONTS: [Front; 5] = [Front::RawAdd, Front::SetInsert, Front::SetExtendIter, Front::SetExtendStream, Front::SetFromIter];

#[derive(Default, Clone, Copy, Debug)]
pub struct Stats {
    pub lookups: u64,
    pub hits: u64,
    pub misses: u64,
    pub evictions: u64,
}

pub fn stats_reset() {
    raw::verif::reset();
}
pub fn stats() -> Stats {
    let s = raw::verif::snapshot();
    Stats { lookups: s.lookups, hits: s.hits, misses: s.misses, evictions: s.evictions }
}

fn e<T, E: std::fmt::Display>(r: Result<T, E>) -> Result<T, String> {
    r.map_err(|e| format!("{}", e))
}

/// a plain user stream over a sorted vector (lends its own buffer)
pub struct VecStream<'a> {
    pub items: &'a [(Vec<u8>, u64)],
    pub pos: usize,
    pub buf: Vec<u8>,
}
impl<'a> VecStream<'a> {
    pub fn new(items: &'a [(Vec<u8>, u64)]) -> VecStream<'a> {
        VecStream { items, pos: 0, buf: vec![] }
    }
}
impl<'s, 'a> Streamer<'s> for VecStream<'a> {
    type Item = (&'s [u8], Output);
    fn next(&'s mut self) -> Option<(&'s [u8], Output)> {
        if self.pos >= self.items.len() {
            return None;
        }
        let (k, v) = &self.items[self.pos];
        self.pos += 1;
        self.buf.clear();
        self.buf.extend_from_slice(k);
        Some((&self.buf, Output::new(*v)))
    }
}
/// the same for the map flavour (&[u8], u64)
pub struct VecMapStream<'a>(pub VecStream<'a>);
impl<'s, 'a> Streamer<'s> for VecMapStream<'a> {
    type Item = (&'s [u8], u64);
    fn next(&'s mut self) -> Option<(&'s [u8], u64)> {
        self.0.next().map(|(k, v)| (k, v.value()))
    }
}
pub struct VecSetStream<'a>(pub VecStream<'a>);
impl<'s, 'a> Streamer<'s> for VecSetStream<'a> {
    type Item = &'s [u8];
    fn next(&'s mut self) -> Option<&'s [u8]> {
        self.0.next().map(|(k, _)| k)
    }
}

/// Build `kv` through `front`; returns the produced bytes. `ty` only applies to RawGeom.
pub fn build(front: Front, kv: &Kv) -> Result<Vec<u8>, String> {
    match front {
        Front::RawGeom(r, c) => {
            let mut b = e(Builder::verif_new_with_cache(Vec::new(), 0, r, c))?;
            let all_zero = kv.iter().all(|(_, v)| *v == 0);
            for (k, v) in kv {
                if all_zero && (r + c) % 2 == 1 {
                    e(b.add(k))?;
                } else {
                    e(b.insert(k, *v))?;
                }
            }
            e(b.into_inner())
        }
        Front::RawMemoryInsert => {
            let mut b = Builder::memory();
            for (k, v) in kv {
                e(b.insert(k, *v))?;
            }
            e(b.into_inner())
        }
        Front::RawMixed => {
            let mut b = Builder::memory();
            for (k, v) in kv {
                if *v == 0 {
                    e(b.add(k))?;
                } else {
                    e(b.insert(k, *v))?;
                }
            }
            e(b.into_inner())
        }
        Front::RawMixedBulk => {
            let mut b = Builder::memory();
            let mut i = 0;
            let mut turn = kv.len();
            while i < kv.len() {
                turn += 1;
                // runs of 1..3 entries; which entry point takes the run rotates with the position
                let n = (1 + (turn + i) % 3).min(kv.len() - i);
                let chunk = &kv[i..i + n];
                match turn % 4 {
                    0 => e(b.extend_iter(chunk.iter().map(|(k, v)| (k.clone(), Output::new(*v)))))?,
                    1 => e(b.extend_stream(VecStream::new(chunk)))?,
                    _ => {
                        for (k, v) in chunk {
                            if *v == 0 {
                                e(b.add(k))?;
                            } else {
                                e(b.insert(k, *v))?;
                            }
                        }
                    }
                }
                i += n;
            }
            e(b.into_inner())
        }
        Front::RawAdd => {
            let mut b = Builder::memory();
            for (k, _) in kv {
                e(b.add(k))?;
            }
            Ok(b.into_fst().into_inner())
        }
        Front::RawNewVec => {
            let mut b = e(Builder::new_type(Vec::new(), 0))?;
            for (k, v) in kv {
                e(b.insert(k, *v))?;
            }
            e(b.into_inner())
        }
        Front::RawExtendIter => {
            let mut b = e(Builder::new(Vec::new()))?;
            e(b.extend_iter(kv.iter().map(|(k, v)| (k.clone(), Output::new(*v)))))?;
            e(b.into_inner())
        }
        Front::RawExtendStream => {
            let mut b = e(Builder::new(Vec::new()))?;
            e(b.extend_stream(VecStream::new(kv)))?;
            e(b.into_inner())
        }
        Front::RawShortSink => {
            let sink = crate::sinks::Sink::new(crate::sinks::Policy::Random(kv.len() as u64 * 31 + kv.first().map(|e| e.1).unwrap_or(7)));
            let mut b = e(Builder::new(sink.clone()))?;
            for (k, v) in kv {
                e(b.insert(k, *v))?;
            }
            e(b.finish())?;
            Ok(sink.committed_data())
        }
        Front::RawFromIter => {
            let f = e(Fst::from_iter_map(kv.iter().map(|(k, v)| (k, *v))))?;
            Ok(f.into_inner())
        }
        Front::MapInsert => {
            let mut b = MapBuilder::memory();
            for (k, v) in kv {
                e(b.insert(k, *v))?;
            }
            e(b.into_inner())
        }
        Front::MapExtendIter => {
            let mut b = e(MapBuilder::new(Vec::new()))?;
            e(b.extend_iter(kv.iter().map(|(k, v)| (k, *v))))?;
            e(b.into_inner())
        }
        Front::MapExtendStream => {
            let mut b = MapBuilder::memory();
            e(b.extend_stream(VecMapStream(VecStream::new(kv))))?;
            Ok(b.into_map().into_fst().into_inner())
        }
        Front::MapFromIter => {
            let m = e(Map::from_iter(kv.iter().map(|(k, v)| (k, *v))))?;
            Ok(m.into_fst().into_inner())
        }
        Front::SetInsert => {
            let mut b = SetBuilder::memory();
            for (k, _) in kv {
                e(b.insert(k))?;
            }
            e(b.into_inner())
        }
        Front::SetExtendIter => {
            let mut b = e(SetBuilder::new(Vec::new()))?;
            e(b.extend_iter(kv.iter().map(|(k, _)| k)))?;
            e(b.into_inner())
        }
        Front::SetExtendStream => {
            let mut b = SetBuilder::memory();
            e(b.extend_stream(VecSetStream(VecStream::new(kv))))?;
            Ok(b.into_set().into_fst().into_inner())
        }
        Front::SetFromIter => {
            let s = e(Set::from_iter(kv.iter().map(|(k, _)| k)))?;
            Ok(s.into_fst().into_inner())
        }
    }
}

/// record the structural classes of a decoded artifact (decoder-derived coverage)
pub fn node_histogram(d: &crate::refdec::Decoded, ev: &mut crate::ctx::Ev) {
    for (_, n) in &d.nodes {
        ev.count(["cov:form=OTN", "cov:form=OT", "cov:form=AT"][n.form as usize]);
        let f = n.trans.len();
        let fc = match f {
            0 => "cov:fanout=0",
            1 => "cov:fanout=1",
            2..=32 => "cov:fanout=2..32",
            33..=63 => "cov:fanout=33..63",
            64..=255 => "cov:fanout=64..255",
            _ => "cov:fanout=256",
        };
        ev.count(fc);
        if n.form != 0 {
            ev.count(&format!("cov:osize={}", n.osize));
            if f > 0 {
                ev.count(&format!("cov:tsize={}", n.tsize));
            }
        }
        if n.is_final {
            ev.count(if n.final_out != 0 { "cov:final-with-output" } else { "cov:final-no-output" });
        }
        if n.has_index {
            ev.count("cov:index-present");
        }
        if n.form != 2 {
            ev.count(if n.common { "cov:input-common" } else { "cov:input-explicit" });
        }
        if n.trans.iter().any(|t| t.2 == 0) {
            ev.count("cov:trans-to-sentinel");
        }
    }
    ev.count("cov:files-decoded");
}

/// Floors that make a run inconclusive when missed. Only classes that follow from the harness' own INPUTS are gated
/// (how often each generator family ran); what the decoder finds in the produced bytes (node forms, pack widths,
/// common-input use) depends on the encoder's policy and is recorded as evidence only.
pub fn structural_floors(thorough: bool) -> Vec<(&'static str, u64)> {
    let mut v = vec![
        ("family:ab3-subsets", 90_000),
        ("family:fanout", 700),
        ("family:fanout-x-width", 100),
        ("family:cache-digest-collision", 40),
        ("family:single-bytes", 500),
        ("family:long-keys", 16),
        ("family:dense-product", 6),
        ("family:corpus", 4),
        ("family:random", 1000),
        ("family:bulk", 4),
    ];
    if thorough {
        v.push(("family:abc2-subsets", 40_000));
    }
    v
}
