//! Counting global allocator: live bytes, peak bytes, allocation count. Address-agnostic.
use std::alloc::{GlobalAlloc, Layout, System};
use std::sync::atomic::{AtomicBool, AtomicU64, Ordering};

pub struct Meter;

static LIVE: AtomicU64 = AtomicU64::new(0);
static PEAK: AtomicU64 = AtomicU64::new(0);
static ALLOCS: AtomicU64 = AtomicU64::new(0);
static ON: AtomicBool = AtomicBool::new(false);
/// when non-zero, allocations of at least this many bytes fail (return null)
static REFUSE_FROM: AtomicU64 = AtomicU64::new(0);

pub fn refuse_allocations_from(bytes: u64) {
    REFUSE_FROM.store(bytes, Ordering::SeqCst);
}

/// Ceiling on the live heap of the whole monitor process (0 = none). A judged operation that drives the process beyond it is a
/// runaway (e.g. a traversal of malformed output that never ends and keeps growing its key buffer): it is reported as a violation
/// by `ctx::report_runaway` before the machine's OOM killer turns the run into an inconclusive one. The ceiling is far above what
/// any workload of the tier legitimately needs (see MAX_LIVE in the evidence).
static CEILING: AtomicU64 = AtomicU64::new(0);
pub static MAX_LIVE: AtomicU64 = AtomicU64::new(0);
static REPORTING: AtomicBool = AtomicBool::new(false);

pub fn set_ceiling(bytes: u64) {
    CEILING.store(bytes, Ordering::SeqCst);
}

#[inline]
fn add(n: u64) {
    let live = LIVE.fetch_add(n, Ordering::Relaxed) + n;
    if live > MAX_LIVE.load(Ordering::Relaxed) {
        MAX_LIVE.fetch_max(live, Ordering::Relaxed);
        let c = CEILING.load(Ordering::Relaxed);
        if c != 0 && live > c && !REPORTING.swap(true, Ordering::SeqCst) {
            CEILING.store(0, Ordering::SeqCst);
            crate::ctx::report_runaway(live, n);
        }
    }
    if ON.load(Ordering::Relaxed) {
        ALLOCS.fetch_add(1, Ordering::Relaxed);
        PEAK.fetch_max(live, Ordering::Relaxed);
    }
}

unsafe impl GlobalAlloc for Meter {
    unsafe fn alloc(&self, l: Layout) -> *mut u8 {
        let lim = REFUSE_FROM.load(Ordering::Relaxed);
        if lim != 0 && l.size() as u64 >= lim {
            return std::ptr::null_mut();
        }
        let p = System.alloc(l);
        if !p.is_null() {
            add(l.size() as u64);
        }
        p
    }
    unsafe fn dealloc(&self, p: *mut u8, l: Layout) {
        LIVE.fetch_sub(l.size() as u64, Ordering::Relaxed);
        System.dealloc(p, l)
    }
    unsafe fn alloc_zeroed(&self, l: Layout) -> *mut u8 {
        let lim = REFUSE_FROM.load(Ordering::Relaxed);
        if lim != 0 && l.size() as u64 >= lim {
            return std::ptr::null_mut();
        }
        let p = System.alloc_zeroed(l);
        if !p.is_null() {
            add(l.size() as u64);
        }
        p
    }
    unsafe fn realloc(&self, p: *mut u8, l: Layout, new: usize) -> *mut u8 {
        let lim = REFUSE_FROM.load(Ordering::Relaxed);
        if lim != 0 && new as u64 >= lim {
            return std::ptr::null_mut();
        }
        let q = System.realloc(p, l, new);
        if !q.is_null() {
            LIVE.fetch_sub(l.size() as u64, Ordering::Relaxed);
            add(new as u64);
        }
        q
    }
}

#[derive(Clone, Copy, Debug)]
pub struct Reading {
    /// peak live bytes above the baseline at `start`
    pub peak: u64,
    /// allocation calls (alloc, alloc_zeroed, realloc) during the section
    pub allocs: u64,
    /// live bytes at the end minus live bytes at the start
    pub net: i64,
}

pub struct Section {
    base: u64,
}

/// set by the process' own housekeeping thread (the non-termination monitor) while it works; measured sections wait for it to
/// finish and it stays idle while a section is open, so its allocations never show up in a reading
pub static HOUSEKEEPING_BUSY: AtomicBool = AtomicBool::new(false);

pub fn section_open() -> bool {
    ON.load(Ordering::SeqCst)
}

/// start a measured section (single-threaded use; the process must be otherwise quiet)
pub fn start() -> Section {
    ON.store(true, Ordering::SeqCst);
    while HOUSEKEEPING_BUSY.load(Ordering::SeqCst) {
        std::hint::spin_loop();
    }
    let base = LIVE.load(Ordering::SeqCst);
    PEAK.store(base, Ordering::SeqCst);
    ALLOCS.store(0, Ordering::SeqCst);
    ON.store(true, Ordering::SeqCst);
    Section { base }
}

impl Section {
    pub fn stop(self) -> Reading {
        ON.store(false, Ordering::SeqCst);
        let live = LIVE.load(Ordering::SeqCst);
        Reading { peak: PEAK.load(Ordering::SeqCst).saturating_sub(self.base), allocs: ALLOCS.load(Ordering::SeqCst), net: live as i64 - self.base as i64 }
    }
}
