//! io::Write sinks that log every call and follow an acceptance / fault policy.
use crate::rng::Rng;
use std::cell::RefCell;
use std::io::{self, ErrorKind, Write};
use std::rc::Rc;

#[derive(Clone, Debug, PartialEq)]
pub enum Outcome {
    Accepted(usize),
    Interrupted,
    Failed(ErrorKind),
    /// an error return whose io::Error carries a structured payload (see `payload_error`)
    FailedPayload(u8),
    Zero,
}

#[derive(Clone, Debug)]
pub struct Event {
    /// true = write, false = flush
    pub write: bool,
    pub offered: usize,
    pub outcome: Outcome,
    /// which builder call was in progress (set by the harness through `set_phase`)
    pub phase: usize,
    /// sink offset before the call
    pub offset: usize,
}

#[derive(Clone, Debug)]
pub enum Fault {
    Err(ErrorKind),
    Zero,
    /// io::Error::new(kind, payload) with a payload that is itself an error value of some library (see `payload_error`)
    Payload(u8),
}

/// An I/O failure whose payload is a structured error: a sink built on top of another component reports that component's
/// error inside the io::Error (0/1: an fst ordering error, as a writer that feeds a second fst builder would; 2: an fst::Error::Io;
/// 3: a nested io::Error; 4: a fmt::Error; 5: a raw fst format error). For the builder under test all of these are sink failures.
pub fn payload_error(which: u8) -> io::Error {
    match which % 6 {
        0 => io::Error::new(ErrorKind::Other, fst::Error::Fst(fst::raw::Error::DuplicateKey { got: b"k".to_vec() })),
        1 => io::Error::new(ErrorKind::InvalidData, fst::Error::Fst(fst::raw::Error::OutOfOrder { previous: b"b".to_vec(), got: b"a".to_vec() })),
        2 => io::Error::new(ErrorKind::Other, fst::Error::Io(io::Error::new(ErrorKind::BrokenPipe, "inner"))),
        3 => io::Error::new(ErrorKind::Other, io::Error::new(ErrorKind::Interrupted, "nested interrupted is still a failure of the outer call")),
        4 => io::Error::new(ErrorKind::InvalidInput, std::fmt::Error),
        _ => io::Error::new(ErrorKind::Other, fst::raw::Error::Format { size: 3 }),
    }
}

#[derive(Clone, Debug)]
pub enum Policy {
    /// accept everything
    Full,
    /// accept at most n bytes per call
    Cap(usize),
    /// acceptance lengths, cyclic (each clamped to 1..=offered)
    Script(Vec<usize>),
    /// accept a single byte at write call p, everything otherwise
    ShortAt(usize),
    /// return Interrupted once at each listed write call index (then the retry is accepted)
    InterruptAt(Vec<usize>),
    /// return Interrupted on every k-th write call
    InterruptEvery(usize),
    /// random acceptance lengths and random interrupts
    Random(u64),
    /// fail write call number i (counting every write call) with the fault; everything else accepted
    FailWriteAt(usize, Fault),
    /// write call i accepts a single byte of a longer buffer, the NEXT write call fails with the fault (a device that fills up
    /// in the middle of one logical write); everything else is accepted. When call i offers a single byte the fault comes at i+1 as well.
    ShortThenFail(usize, Fault),
    /// fail the first flush
    FailFlush(ErrorKind),
    /// the first k flush calls return Interrupted (nothing is flushed by them)
    FlushInterrupted(u64),
    /// at write call `at`, return Interrupted `n` times in a row (not logged individually), then accept `cap` bytes per call
    InterruptStorm { at: usize, n: u64, cap: usize },
    /// a device that fills up: accepts bytes (at most `chunk` per call) until it holds `total` bytes - the call that crosses the
    /// limit is accepted partially - and fails every call after that with the fault (like `&mut [u8]`, a full disk, a quota)
    Capacity { total: usize, chunk: usize, fault: Fault },
    /// every write call first drives ANOTHER fst builder on the same thread (a journaling/indexing sink), then accepts `cap` bytes
    Reentrant { cap: usize },
}

pub struct Inner {
    pub data: Vec<u8>,
    pub log: Vec<Event>,
    pub policy: Policy,
    pub wcalls: usize,
    pub phase: usize,
    pub rng: Rng,
    pub failed: bool,
    pub flushed_after_last_write: bool,
    /// number of bytes the sink held at its last successful flush (what a commit-on-flush sink would keep)
    pub committed: usize,
    pub storm_left: Option<u64>,
}

#[derive(Clone)]
pub struct Sink(pub Rc<RefCell<Inner>>);

impl Sink {
    pub fn new(policy: Policy) -> Sink {
        let seed = if let Policy::Random(s) = policy { s } else { 0 };
        Sink(Rc::new(RefCell::new(Inner { data: vec![], log: vec![], policy, wcalls: 0, phase: 0, rng: Rng::new(seed, 0x51), failed: false, flushed_after_last_write: true, committed: 0, storm_left: None })))
    }
    pub fn set_phase(&self, p: usize) {
        self.0.borrow_mut().phase = p;
    }
    pub fn accepted(&self) -> usize {
        self.0.borrow().data.len()
    }
    pub fn data(&self) -> Vec<u8> {
        self.0.borrow().data.clone()
    }
    pub fn log(&self) -> Vec<Event> {
        self.0.borrow().log.clone()
    }
    /// the bytes a sink that only commits on flush() would hold
    pub fn committed_data(&self) -> Vec<u8> {
        let s = self.0.borrow();
        s.data[..s.committed].to_vec()
    }
    pub fn write_calls(&self) -> usize {
        self.0.borrow().wcalls
    }
}

impl Write for Sink {
    /// A sink that takes gathered writes itself (as files, pipes and sockets do): the buffers are one byte sequence, and the
    /// acceptance policy is applied to that sequence - so a short count may end in the middle of ANY of the buffers.
    /// (The library at the pinned commit never gathers; this only matters for code that starts to.)
    fn write_vectored(&mut self, bufs: &[io::IoSlice<'_>]) -> io::Result<usize> {
        let mut all: Vec<u8> = vec![];
        for b in bufs {
            all.extend_from_slice(b);
        }
        self.write(&all)
    }

    fn write(&mut self, buf: &[u8]) -> io::Result<usize> {
        // policies that must not hold the RefCell while they work
        let pol0 = self.0.borrow().policy.clone();
        if let Policy::InterruptStorm { at, n, cap } = pol0 {
            let mut s = self.0.borrow_mut();
            if s.wcalls >= at {
                let left = s.storm_left.get_or_insert(n);
                if *left > 0 {
                    *left -= 1;
                    return Err(io::Error::new(ErrorKind::Interrupted, "injected interrupt storm"));
                }
            }
            s.wcalls += 1;
            let k = buf.len().min(cap.max(1));
            s.data.extend_from_slice(&buf[..k]);
            s.flushed_after_last_write = false;
            return Ok(k);
        }
        if let Policy::Reentrant { cap } = pol0 {
            // build a small FST of our own while the outer builder is in the middle of a write
            let mut inner = fst::raw::Builder::memory();
            let n = self.0.borrow().wcalls;
            for i in 0..3u8 {
                let _ = inner.insert([b'j', i, (n % 251) as u8], n as u64 + i as u64);
            }
            let _ = inner.into_inner();
            let mut s = self.0.borrow_mut();
            s.wcalls += 1;
            let k = buf.len().min(cap.max(1));
            s.data.extend_from_slice(&buf[..k]);
            s.flushed_after_last_write = false;
            return Ok(k);
        }
        let mut s = self.0.borrow_mut();
        let call = s.wcalls;
        s.wcalls += 1;
        let offset = s.data.len();
        let phase = s.phase;
        let offered = buf.len();
        if offered == 0 {
            s.log.push(Event { write: true, offered, outcome: Outcome::Accepted(0), phase, offset });
            return Ok(0);
        }
        let pol = s.policy.clone();
        let outcome = match pol {
            Policy::Full => Outcome::Accepted(offered),
            Policy::Cap(n) => Outcome::Accepted(offered.min(n.max(1))),
            Policy::Script(v) => Outcome::Accepted(v[call % v.len()].max(1).min(offered)),
            Policy::ShortAt(p) => Outcome::Accepted(if call == p { 1 } else { offered }),
            Policy::InterruptAt(v) => {
                if v.contains(&call) {
                    Outcome::Interrupted
                } else {
                    Outcome::Accepted(offered)
                }
            }
            Policy::InterruptEvery(k) => {
                if call % k.max(2) == k.max(2) - 1 {
                    Outcome::Interrupted
                } else {
                    Outcome::Accepted(offered)
                }
            }
            Policy::Random(_) => {
                if s.rng.below(5) == 0 {
                    Outcome::Interrupted
                } else if s.rng.below(3) == 0 {
                    Outcome::Accepted(offered)
                } else {
                    Outcome::Accepted(1 + s.rng.usize(offered))
                }
            }
            Policy::FailWriteAt(i, f) => {
                if call == i {
                    match f {
                        Fault::Err(k) => Outcome::Failed(k),
                        Fault::Payload(w) => Outcome::FailedPayload(w),
                        Fault::Zero => Outcome::Zero,
                    }
                } else {
                    Outcome::Accepted(offered)
                }
            }
            Policy::ShortThenFail(i, f) => {
                if call == i {
                    Outcome::Accepted(1)
                } else if call == i + 1 {
                    match f {
                        Fault::Err(k) => Outcome::Failed(k),
                        Fault::Payload(w) => Outcome::FailedPayload(w),
                        Fault::Zero => Outcome::Zero,
                    }
                } else {
                    Outcome::Accepted(offered)
                }
            }
            Policy::Capacity { total, chunk, fault } => {
                let room = total.saturating_sub(offset);
                if room == 0 {
                    match fault {
                        Fault::Err(k) => Outcome::Failed(k),
                        Fault::Payload(w) => Outcome::FailedPayload(w),
                        Fault::Zero => Outcome::Zero,
                    }
                } else {
                    Outcome::Accepted(offered.min(room).min(chunk.max(1)))
                }
            }
            Policy::FailFlush(_) | Policy::FlushInterrupted(_) => Outcome::Accepted(offered),
            Policy::InterruptStorm { .. } | Policy::Reentrant { .. } => unreachable!(),
        };
        s.log.push(Event { write: true, offered, outcome: outcome.clone(), phase, offset });
        match outcome {
            Outcome::Accepted(n) => {
                s.data.extend_from_slice(&buf[..n]);
                s.flushed_after_last_write = false;
                Ok(n)
            }
            Outcome::Interrupted => Err(io::Error::new(ErrorKind::Interrupted, "injected interrupt")),
            Outcome::Failed(k) => {
                s.failed = true;
                Err(io::Error::new(k, "injected fault"))
            }
            Outcome::FailedPayload(w) => {
                s.failed = true;
                Err(payload_error(w))
            }
            Outcome::Zero => {
                s.failed = true;
                Ok(0)
            }
        }
    }
    fn flush(&mut self) -> io::Result<()> {
        let mut s = self.0.borrow_mut();
        let offset = s.data.len();
        let phase = s.phase;
        if let Policy::FlushInterrupted(k) = s.policy.clone() {
            let left = s.storm_left.get_or_insert(k);
            if *left > 0 {
                *left -= 1;
                s.log.push(Event { write: false, offered: 0, outcome: Outcome::Interrupted, phase, offset });
                return Err(io::Error::new(ErrorKind::Interrupted, "injected interrupted flush"));
            }
        }
        if let Policy::FailFlush(k) = s.policy.clone() {
            if !s.failed {
                s.failed = true;
                s.log.push(Event { write: false, offered: 0, outcome: Outcome::Failed(k), phase, offset });
                return Err(io::Error::new(k, "injected flush fault"));
            }
        }
        s.flushed_after_last_write = true;
        s.committed = offset;
        s.log.push(Event { write: false, offered: 0, outcome: Outcome::Accepted(0), phase, offset });
        Ok(())
    }
}
