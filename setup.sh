#!/usr/bin/env bash
# one-off, offline: build the monitor binary and the CLI under test so the first check is fast
set -u
HERE="$(cd "$(dirname "${BASH_SOURCE[0]}")" && pwd)"
export CARGO_NET_OFFLINE=true
TGT="$HERE/target"; mkdir -p "$TGT" "$HERE/evidence"
( cd "$HERE/harness" && CARGO_TARGET_DIR="$TGT/native" RUSTFLAGS="--cfg burntsushi_fst_verif" cargo build --offline --release --bin fstmon ) 2>&1 | tail -3
( cd "$HERE/harness" && CARGO_TARGET_DIR="$TGT/native" RUSTFLAGS="--cfg burntsushi_fst_verif" cargo build --offline --profile relcheck --bin fstmon ) 2>&1 | tail -3
( cd /repo && CARGO_TARGET_DIR="$TGT/fstbin" RUSTFLAGS="--cfg burntsushi_fst_verif" cargo build --offline --release -p fst-bin ) 2>&1 | tail -3
# Miri build of the C20 shard binary (sysroot + dependencies); a failure here only makes C20 slower / inconclusive later
( cd "$HERE/harness" && CARGO_TARGET_DIR="$TGT/miri" RUSTFLAGS="--cfg burntsushi_fst_verif" MIRIFLAGS="" cargo +nightly miri run --offline --bin fstmiri -- 0 0 0 probe ) 2>&1 | tail -2
exit 0
