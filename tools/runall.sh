#!/usr/bin/env bash
# run every check at a tier (default quick), print one line per check; exit 1 if any is not HELD
cd "$(dirname "$0")/.."
TIER="${1:-quick}"; rc=0
for i in 01 02 03 04 05 06 07 08 09 10 11 12 13 14 15 16 17 18 19 20; do
  s=$(date +%s); out=$(./check C$i "$TIER" 2>&1); code=$?; e=$(( $(date +%s) - s ))
  echo "C$i exit=$code ${e}s $(echo "$out" | tail -1)"
  [ $code -ne 0 ] && { rc=1; echo "$out" | grep -E "^(VIOLATION|INCONCLUSIVE|KNOWN)" | head -5; }
done
exit $rc
