#!/usr/bin/env bash
# tools/altverif.sh <name> [patch ...]
# Make an isolated copy of the machinery AND of the repository, so that changes can be evaluated without touching
# /repo (which registered checks and background runs read):
#   /tmp/alt-<name>/repo    detached git worktree of /repo HEAD with the given patches applied
#   /tmp/alt-<name>/verif   copy of /verif (no build output) whose references to /repo point to that worktree
# Run checks there as usual: (cd /tmp/alt-<name>/verif && ./check C01 quick). Remove with tools/altverif.sh --rm <name>.
set -u
if [ "$1" = "--rm" ]; then
  git -C /repo worktree remove --force "/tmp/alt-$2/repo" >/dev/null 2>&1; rm -rf "/tmp/alt-$2"; git -C /repo worktree prune; exit 0
fi
NAME="$1"; shift
ROOT="/tmp/alt-$NAME"
[ -e "$ROOT" ] && { echo "exists: $ROOT"; exit 3; }
mkdir -p "$ROOT"
git -C /repo worktree add --detach "$ROOT/repo" HEAD >/dev/null 2>&1 || { echo "worktree failed"; exit 3; }
for p in "$@"; do git -C "$ROOT/repo" apply "$p" || { echo "PATCH DOES NOT APPLY: $p"; exit 4; }; done
rsync -a --exclude target --exclude replays --exclude .git --exclude seeded /verif/ "$ROOT/verif/"
sed -i "s#\"/repo\"#\"$ROOT/repo\"#g; s#\"/repo/data/#\"$ROOT/repo/data/#g" "$ROOT/verif/harness/Cargo.toml" "$ROOT/verif/harness/src/gen.rs" "$ROOT/verif/harness/src/checks/c20.rs"
sed -i "s#cd /repo #cd $ROOT/repo #g" "$ROOT/verif/check" "$ROOT/verif/setup.sh"
if grep -rn '/repo' "$ROOT/verif/check" "$ROOT/verif/harness/Cargo.toml" "$ROOT/verif/harness/src" | grep -v "$ROOT/repo" | grep -v '^\S*:\s*//' | grep -q '"/repo\|cd /repo'; then echo "warning: unreplaced /repo reference"; fi
echo "$ROOT/verif"
