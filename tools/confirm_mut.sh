#!/usr/bin/env bash
# tools/confirm_mut.sh <Cxx> <A|B>   -- confirm a sub-agent's seeded change in ITS scratch worktree /tmp/mut-<Cxx>:
#  (1) patch applies and the unedited test suite passes with it, (2) it compiles with the hooks on,
#  (3) the demonstration fails with the change and passes without. Prints CONFIRMED or the step that failed.
set -u
ID="$1"; V="$2"; R="${ROUND:-}"; WT="/tmp/mut$R-$ID"; OUT="/tmp/mut-out$R/$ID"; P="$OUT/$V.patch"
export CARGO_TARGET_DIR="$WT/target" CARGO_NET_OFFLINE=true
cd "$WT" || { echo "no worktree $WT"; exit 2; }
clean() { git -C "$WT" checkout -- . >/dev/null 2>&1; git -C "$WT" clean -fdq -e target >/dev/null 2>&1; }
clean
[ -s "$P" ] || { echo "$ID/$V: no patch"; exit 2; }
git apply "$P" || { echo "$ID/$V: PATCH DOES NOT APPLY"; clean; exit 1; }
if ! cargo test --workspace --offline >"$OUT/$V.suite.log" 2>&1; then echo "$ID/$V: TEST SUITE FAILS WITH THE CHANGE"; grep -E "^test .* FAILED|panicked" "$OUT/$V.suite.log" | head -5; clean; exit 1; fi
npass=$(grep -E "^test result: ok" "$OUT/$V.suite.log" | awk '{s+=$4} END{print s}')
if ! RUSTFLAGS="--cfg burntsushi_fst_verif" CARGO_TARGET_DIR="$WT/target/cfg" cargo build --offline -p fst --features levenshtein >"$OUT/$V.cfg.log" 2>&1 || ! RUSTFLAGS="--cfg burntsushi_fst_verif" CARGO_TARGET_DIR="$WT/target/cfg" cargo build --offline -p fst-bin >>"$OUT/$V.cfg.log" 2>&1; then echo "$ID/$V: DOES NOT COMPILE WITH HOOKS ON"; clean; exit 1; fi
rundemo() {
  if [ -f "$OUT/${V}_demo.rs" ]; then
    cp "$OUT/${V}_demo.rs" "$WT/tests/zz_seeded_demo.rs"
    cargo test --offline --features levenshtein --test zz_seeded_demo >"$OUT/$V.demo.$1.log" 2>&1; local rc=$?
    rm -f "$WT/tests/zz_seeded_demo.rs"; return $rc
  elif [ -f "$OUT/${V}_demo.sh" ]; then
    ( cd "$WT" && cargo build --offline -p fst-bin >/dev/null 2>&1; bash "$OUT/${V}_demo.sh" ) >"$OUT/$V.demo.$1.log" 2>&1; return $?
  else echo "no demo"; return 99; fi
}
rundemo with; with=$?
git -C "$WT" checkout -- . >/dev/null 2>&1
rundemo without; without=$?
clean
if [ $with -ne 0 ] && [ $with -ne 99 ] && [ $without -eq 0 ]; then echo "$ID/$V: CONFIRMED (suite passes: $npass tests ok; demo fails with the change [rc=$with], passes without)"; exit 0
else echo "$ID/$V: DEMO NOT CONFIRMED (with=$with without=$without)"; exit 1; fi
