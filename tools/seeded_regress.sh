#!/usr/bin/env bash
# tools/seeded_regress.sh [tier]  -- for every kept seeded change: apply it to /repo, run the check of the property it
# breaks (plus every other check listed in its meta.json), restore the tree. Prints one line per (change, check) and a
# summary; exit 1 if a change is not caught by any of its listed checks.
set -u
cd "$(dirname "$0")/.."
TIER="${1:-quick}"; miss=0; total=0
git -C /repo diff --quiet || { echo "refusing: /repo has uncommitted changes"; exit 3; }
for d in seeded/*/; do
  id=$(basename "$d")
  checks=$(python3 -c "import json,sys; m=json.load(open('$d/meta.json')); print(' '.join(dict.fromkeys([m['property']]+[c['check'] for c in m['caught_by']])))")
  if python3 -c "import json,sys; sys.exit(0 if json.load(open('$d/meta.json')).get('retired') else 1)"; then echo "$id: RETIRED (see meta.json)"; continue; fi
  need=$(python3 -c "import json; print(json.load(open('$d/meta.json')).get('needs_tier','quick'))")
  if [ "$need" = thorough ] && [ "$TIER" = quick ]; then echo "$id: SKIPPED (only the thorough tier reaches it)"; continue; fi
  git -C /repo apply "$PWD/$d/patch.diff" || { echo "$id: PATCH DOES NOT APPLY"; miss=$((miss+1)); continue; }
  caught=""
  for c in $checks; do
    out=$(./check "$c" "$TIER" 2>&1); code=$?
    sig=$(echo "$out" | grep -E "^  signature=" | head -1 | sed 's/ detail=.*//; s/^  signature=//')
    echo "$id $c exit=$code ${sig:-}"
    [ $code -eq 1 ] && caught="$caught $c"
  done
  git -C /repo checkout -- . >/dev/null 2>&1
  total=$((total+1))
  if [ -z "$caught" ]; then echo "$id: NOT CAUGHT"; miss=$((miss+1)); fi
done
echo "SUMMARY: $total seeded changes, $miss not caught"
[ $miss -eq 0 ]
