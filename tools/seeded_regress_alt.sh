#!/usr/bin/env bash
# tools/seeded_regress_alt.sh <lane> <nlanes> [tier]  -- like seeded_regress.sh, but isolated (tools/evalalt.sh: /repo untouched) and
# sharded: lane k of n takes every n-th kept seeded change. Prints one line per (change, check); "NOT CAUGHT" if none of the checks
# listed in the change's meta.json reports a violation.
set -u
cd "$(dirname "$0")/.."
LANE="$1"; N="$2"; TIER="${3:-quick}"; i=0
for d in seeded/*/; do
  id=$(basename "$d"); i=$((i+1))
  [ $((i % N)) -eq "$LANE" ] || continue
  if python3 -c "import json,sys; sys.exit(0 if json.load(open('$d/meta.json')).get('retired') else 1)"; then echo "$id: RETIRED"; continue; fi
  need=$(python3 -c "import json; print(json.load(open('$d/meta.json')).get('needs_tier','quick'))")
  if [ "$need" = thorough ] && [ "$TIER" = quick ]; then echo "$id: SKIPPED (thorough only)"; continue; fi
  checks=$(python3 -c "import json; m=json.load(open('$d/meta.json')); print(' '.join(dict.fromkeys([c['check'] for c in m['caught_by']])))")
  out=$(tools/evalalt.sh "sr-$id" "$PWD/$d/patch.diff" "$TIER" $checks 2>&1)
  echo "$out" | cut -c1-200
  if echo "$out" | grep -q "exit=1"; then echo "$id: caught"; else echo "$id: NOT CAUGHT"; fi
done
echo "LANE $LANE DONE"
