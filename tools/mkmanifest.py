#!/usr/bin/env python3
"""Regenerates /verif/MANIFEST.json from the table below and validates it against the schema."""
import json, os, sys
HERE = os.path.dirname(os.path.dirname(os.path.abspath(__file__)))

# id: (built, category, technique, text, note, design_ref)
C = {
 "C01": (True, "exploration", "reference-model monitor (ordered map) over exhaustive small scopes, boundary-directed and random builds; decoder-derived structural coverage",
   "Every build (all subsets of {a,b}^<=3 x value styles x 6 cache geometries via hook H1, fan-out palette, a fan-out x output-width grid, all 256 bytes, keys of 15..70000 bytes and one 17 MB key forcing 4-byte deltas, dense product sets, values solved to collide in the node cache's 64-bit digest, a hostile short-write sink, raw builders driven through every mixture of add / insert / extend_iter / extend_stream and repeated add, builders with rejected calls in between, Default containers, corpora, random and bulk maps, and history scenarios - series of 1500 small builds on one thread with abandoned builders in between, half-filled builders migrating between threads; thorough: one FST > 4 GiB) is reopened and streamed through every enumeration API and compared element-wise with the inserted map. Held-on-what-was-run, with exhaustive coverage of the small scopes in which the builder's case distinctions live.",
   "Trusts the harness' ordered-map model and generators; structural coverage classes come from the independent decoder; not a proof for all inputs.", "DESIGN.md#c01"),
 "C02": (True, "exploration", "reference-model monitor: point lookups vs ordered map, probe classes from the independently decoded node graph",
   "Every key, every proper prefix, one-byte extensions, all 256 continuations at wide nodes and the root, +-1 substitutions at every position, empty and random probes through raw/Map/Set get/contains_key/contains on the shared case pool, on Default containers and container conversions, and on the FSTs of the history scenarios; ~10^8 probes per quick run.",
   "Model = binary search on the inserted sequence; coverage classes are decoder-derived.", "DESIGN.md#c02"),
 "C03": (True, "exploration", "reference-model monitor (range filter) + online invariant monitor on hooked stream state (H3 lock step)",
   "All (none|ge|gt) x (none|le|lt) x bound-pair queries over a bound universe incl. absent strings, prefixes, extensions, +-1 mutations and inverted ranges on exhaustive small FSTs, deep random maps, wide nodes (also as version-1 and version-2 files from the reference encoder) and corpora; output compared with the model filter; after construction and after every next() the hooked DFS stack and key buffer must be in lock step; repeated-bound 'last setting wins'.",
   "Bound classes are decided from inputs alone; hook H3 is read-only.", "DESIGN.md#c03"),
 "C04": (True, "exploration", "reference-model monitor (independent DFA run per key) + online invariant monitor on hooked per-frame automaton state (H3); hint-weakening metamorphic coverage",
   "All DFAs with <=2 states over 2 byte classes x all sound hint assignments, sampled/random larger DFAs with weakened hints, shipped automata and combinators (incl. Levenshtein, regex-automata DFAs) x FST sets x bound combinations; results, reported states and every hooked stack frame are compared with an independent run of the automaton; a traversal that never returns is reported by the non-termination monitor (thread CPU time inside one guarded operation).",
   "Generated automata obey the contract by construction (sound hints proven on the explicit graph, no accept_eof).", "DESIGN.md#c04"),
 "C05": (True, "exploration", "reference-model monitor: set algebra on model sets incl. per-key (index,value) multisets",
   "All k-tuples (k<=4) of subsets of a small universe x 4 operations x raw/map/set OpBuilder APIs with rotated stream kinds (FST, range, search, user stream, same FST twice), sampled larger k (up to 13 streams), tuples behind a 70-byte common prefix, run-structured tuples (solo runs of 1..100 keys ended by shared keys under smaller/equal/larger values), one operation set over more than 66000 streams, random large maps, and is_disjoint/is_subset/is_superset on all pairs.",
   "IndexedValue order within a key is unspecified and compared as a sorted multiset.", "DESIGN.md#c05"),
 "C06": (True, "exploration", "sequential-model monitor over exhaustive short call histories and random long ones",
   "All 9331 call sequences of length <=5 over 6 keys x 4 step-wise front ends and 10 bulk front ends: each call result (variant and payload), bytes_written stability on rejection, and the finished content are compared with a 10-line model; every sequence is additionally replayed on ONE builder under every segmentation into single inserts and bulk calls, so calls following a bulk call that stopped at a rejection are judged too.",
   "Mixed add/insert on one raw builder is outside the statement.", "DESIGN.md#c06"),
 "C07": (True, "fault_enumeration", "event-log monitor on instrumented io::Write sinks: acceptance-schedule enumeration, byte equality with in-memory build, bytes_written vs accepted counter",
   "For each FST every single-short-write position, every single-Interrupted position, caps 1..16, scripts, random schedules and container sinks (the sinks also take gathered writes, applying the schedule across buffer boundaries); sink bytes must equal the in-memory build, reopen, verify and carry the reference CRC; bytes_written() is compared with the sink's accepted-byte counter after every call, including the call that fails when a capacity-limited sink fills up in the middle of a logical write.",
   "Sinks follow the io::Write contract.", "DESIGN.md#c07"),
 "C08": (True, "fault_enumeration", "exhaustive single-byte corruption enumeration + bit-wise reference CRC oracle + synthetic-length sweep of the checksum fast path + subprocess monitor of the command line gate `fst verify`",
   "Every offset x every other byte value on small FSTs (never 'opens and verifies'), sampled bit flips on corpus FSTs, reference masked CRC-32C on every built FST incl. hostile chunking, synthetic images of every length 36..4200 covering all slice-by-16 tail lengths, verdicts that must not carry over (verify, swap the data through map_data or underneath a two-generation container, verify again), images of 4-16 MiB, and `fst verify` (subprocess) over freshly built files and over argument lists in which one file - first, middle or last - is a single-byte mutant.",
   "Multi-byte bursts are not judged (2^-32 collisions are legitimate).", "DESIGN.md#c08"),
 "C09": (True, "exploration", "independent on-disk format decoder + bit-wise reference CRC as runtime oracle over all built artifacts",
   "Every artifact of the shared case pool is parsed by a decoder written from the format description only (never the crate's reader): header, footer, node layouts, backward pointers, exact tiling, root last, checksum, decoded map == inserted map; also every file written in the history scenarios and by builders after rejected calls.",
   "The 63-entry common-input table is pinned format data; compactness policy is recorded, not judged.", "DESIGN.md#c09"),
 "C10": (True, "exploration", "independent reference encoder for format versions 1-3 (self-checked by the independent decoder) + committed golden files; reader queried against the encoded model",
   "~2400 models x versions {1,2,3} x 2 output distributions/node-form policies, opened in 9 container kinds (Vec, slice, Cow, Box, Arc newtype, mmap, map_data, Map/Set) and put through a full query battery incl. an enumeration through the low-level node interface and cross-version set operations; containers whose data is swapped through map_data for different well-formed bytes of equal length (other content, other version); 40 golden files; header sweep for the required error classes incl. version numbers that only look supported after truncation; the command line reader `fst range -o` over reference-encoded files of every version (incl. the 32..35-byte files).",
   "Inputs both too short and of unsupported version may report either error; encoder output is validated by the decoder before use.", "DESIGN.md#c10"),
 "C11": (True, "fault_enumeration", "event-log monitor on fault-injecting sinks: every write-call index x error kinds (incl. io::Errors with structured payloads) / zero-length accept / flush failure, directly and through BufWriter",
   "The sink logs which builder call was in progress when the injected fault happened; that call must return Err(Io) (no panic, no Ok, no other error); sessions that never reach the fault must deliver and flush every byte; faults at the start and in the middle of a logical write, device-full sinks, structured error payloads, an output above 64 KiB, every one of the last six write calls refused (Ok(0), error, short-then-refused), output lengths sweeping past the multiples of 4..64 KiB; command line builds writing to a pipe whose reader went away or to /dev/full must not exit 0.",
   "Interrupted is a retry request (C07); behaviour after an I/O error is not judged.", "DESIGN.md#c11"),
 "C12": (True, "exploration", "hooked premise (cache eviction counter H2) + independent trie/minimal-DFA oracle on the decoded node graph",
   "For every build: nodes <= trie nodes; when the hooked counters show no eviction: no two reachable nodes share a signature and sets have exactly the minimal DFA's state count; corpora must realise > 50% of achievable sharing (measured 0.78-0.96); also builders filled side by side on one thread, and 700-2500 distinct wide nodes resident in the cache and then repeated.",
   "'No eviction' is observed through the cfg-guarded counters; 'most' is read as > 0.5.", "DESIGN.md#c12"),
 "C13": (True, "exploration", "allocation monitor: counting global allocator around builds streaming to io::sink() at growing N",
   "Peak live heap (decimal, base-64, prefix-chain, grouped-tails, repeated-key and decreasing-value series; short-write sinks; bulk entry points) stays below an a-priori constant from geometry/fan-out/key length, does not move by more than 2% between N=10^6 and 10^7 (3*10^7 thorough), nothing is retained after finish; several geometries via hook H1.",
   "Decides the bounded restatement (scales up to 3*10^7), not 'for all N'.", "DESIGN.md#c13"),
 "C14": (True, "exploration", "allocation monitor: counting global allocator around traversals, set operations and lookups at growing N",
   "Peak heap (the allocation count is recorded as evidence) of stream/range/search/set-ops (k up to 8) - including operations whose single next() call has to skip ~N candidates (disjoint intersections, cancelling differences, Set relations) and operations whose k inputs are collected from a filter over 4,000,000 candidates - are independent of N in {10^4,10^5,10^6(,10^7)} and under a fixed small constant; open-over-borrowed/mmap + 10^5 lookups allocate exactly 0 times, also on a 69 MB FST; {:?} formatting of a Map/Set is measured as an enumeration.",
   "Bounded restatement; constants fixed a priori.", "DESIGN.md#c14"),
 "C15": (True, "exploration", "differential monitor: byte equality across API paths, sinks, repeated runs, 16 concurrent threads and child processes",
   "Each sequence is built through up to 25 paths (all front ends, unions of partial FSTs streamed into a builder, sinks) and must be byte-identical; cross-thread and cross-process digests incl. tiny cache geometries where evictions occur; sequences are rebuilt after an unrelated builder with more than a million keys; sequences include hundreds of distinct wide nodes recurring after cache-flushing filler and solved cache-digest collisions.",
   "Determinism is judged per cache geometry.", "DESIGN.md#c15"),
 "C16": (True, "exploration", "reference-model monitor: inverse map oracle over exhaustive small monotone maps",
   "All subsets of {a,b}^<=3 x 6 strictly increasing value shapes (with/without the empty key, zero/non-zero first value), corpora and random monotone maps; every stored value, +-1, extremes and random values through get_key and get_key_into (prefix-preserving); maps also come from builders that were offered repeated and rejected keys in between.",
   "Non-monotone maps are outside the statement.", "DESIGN.md#c16"),
 "C17": (True, "exploration", "reference-model monitor: scalar-value edit distance oracle over an exhaustive multi-byte alphabet scope",
   "All q in A^<=3 x d<=2 x all k in A^<=3 over an alphabet with 1-4 byte scalars sharing 1/2/3 lead bytes (1.03M triples), Set::search per (q,d), random wide-Unicode strings, five further exhaustive alphabets (encoding-length boundaries, scalars differing only in the lead byte), distances 200..600 through new_with_limit, every query length 1..40 (+47,48,63,64,65) x distances 1..6, one automaton with > 65536 states, and new_with_limit series (payload, monotonicity, behaviour, number of distinct reachable states counted through the public interface).",
   "Keys are valid UTF-8.", "DESIGN.md#c17"),
 "C18": (True, "exploration", "reference language algebra: textbook-constructed reference DFA with exact reachability sets vs the real combinators driven byte by byte",
   "~67k expressions (all leaves incl. every <=2-state component DFA with every sound hint assignment, unary/binary/depth-2/3 compositions) x all short strings + a representative of every reference state: is_match == membership, can_match false only in dead states, will_always_match true only in all-accepting states; patterns with byte order marks, zero-width characters, blanks, NUL, CR LF, decomposed letters; patterns of 31..257 and of 65535..131073 bytes driven by two-point perturbations and guided walks; automata built over one re-used query buffer.",
   "Component hints are sound by construction (the statement's premise); a brute-force third definition cross-checks the oracle.", "DESIGN.md#c18"),
 "C19": (True, "exploration", "subprocess monitor of the real fst binary with seeded delay injection (hook H4), offline merge-tree trace checker, model-merge oracle; ThreadSanitizer and valgrind memcheck runs (thorough)",
   "Hundreds (thorough: thousands) of runs of `fst set|map` over 21 input shapes (plus ~100 inputs whose batch count lies around a power of the fan-in) x batch sizes x fd limits x thread counts x merge modes under seeded delays; exit status, verify(), keys, merged values and byte identity with a sorted build (library build and the command line's own --sorted --force build, also over a longer existing file) are judged; a third of the runs keep the scratch directory on another file system; some runs use the tool's own defaults, also confined to one cpu; inputs include CRLF (also 160 KB files whose line endings straddle every multiple of 4096 bytes), missing final newlines, empty files, BOM-prefixed and NUL-suffixed keys, 6000 batches in one phase; the hooked trace yields the merge tree, and the evidence reports how many distinct trees / worker assignments were observed (213 quick, ~2000 thorough); thorough adds 200 TSan and 30 memcheck runs.",
   "Interleavings are sampled, not enumerated; keys need no CSV quoting; a subprocess watchdog is inconclusive.", "DESIGN.md#c19"),
 "C20": (True, "exploration", "catch_unwind totality monitor in a release and an overflow-checked build + Miri (undefined-behaviour interpreter) over 16 shards; auxiliary non-runtime forbid(unsafe_code) compile gate",
   "1.3M (thorough 20M) hostile images (boundary header/footer sweep, random strings, truncations/mutations/extensions of valid FSTs) through open + accessors + verify in two build profiles; Miri interprets the same gate plus bounded traversals of mutated FSTs (panic allowed, UB not) and miniature valid-input operations; the command line gate `fst verify` must end with a verdict (exit 0/1) on several hundred hostile files.",
   "root()/node()/traversals may panic on malformed data; the syntactic 'no unsafe' clause is only covered by the declared auxiliary compile gate; Miri/tool failures are inconclusive.", "DESIGN.md#c20"),
}
TODO = ["C02","C03","C04","C05","C06","C07","C08","C10","C11","C12","C13","C14","C15","C16","C17","C18","C19","C20"]

checks = []
for cid, (built, cat, tech, text, note, ref) in sorted(C.items()):
    if not built: continue
    checks.append({
        "property_id": cid,
        "quick_cmd": f"./check {cid} quick",
        "thorough_cmd": f"./check {cid} thorough",
        "evidence_file": f"/verif/evidence/{cid}.json",
        "replay_cmd_template": f"./check {cid} quick --replay {{path}}",
        "engine": "fstmon",
        "level_claimed": {"category": cat, "text": text, "design_ref": ref},
        "level_note": note,
        "technique": tech,
    })
na = [{"property_id": c, "reason": "check not built yet in this session (work in progress; the technique applies)"} for c in TODO if c not in C or not C[c][0]]
m = {
 "version": 1,
 "setup_cmd": "./setup.sh",
 "hooks": {
   "guard": "--cfg burntsushi_fst_verif (rustc cfg flag, passed through RUSTFLAGS)",
   "enable": "RUSTFLAGS='--cfg burntsushi_fst_verif' cargo build --offline (the harness depends on /repo by path, so every check rebuilds the library from the working tree; fst-bin is rebuilt the same way for C19)",
   "baseline_off_cmd": "cd /repo && cargo test --workspace --no-fail-fast --offline",
   "source_commits": ["551498d", "09028d1", "4662e10", "1a3ec36", "85523a5", "6750d81"],
   "add_only": True,
 },
 "engines": [
   {"name": "fstmon", "path": "/verif/harness", "serves_properties": sorted(k for k,v in C.items() if v[0]),
    "kind_free_text": "Rust monitor binary linked against /repo (path dependency, hooks on): reference models, independent format decoder/encoder, event-logging io::Write sinks, counting global allocator, explicit DFAs; plus Miri and ThreadSanitizer runs driven by ./check"},
 ],
 "checks": checks,
 "not_applicable": na,
 "notes": "Process-level monitors shared by the checks that use worker threads: a non-termination monitor (a worker that burns 240 s / 3 h of its own CPU time inside one guarded operation is reported as does-not-terminate), a runaway-memory monitor (ceiling on the live heap of the monitor process), and history noise (judged operations are interleaved with unrelated library use on the same thread). Verdicts are three-valued: exit 0 held on everything explored, exit 1 with a VIOLATION line, exit 2 INCONCLUSIVE (build failure, watchdog, coverage floor missed) which never prints a VIOLATION line. VERIF_SEED selects the random streams. Known findings / fixed defects: /verif/known-findings.txt.",
}
json.dump(m, open(os.path.join(HERE, "MANIFEST.json"), "w"), indent=1)
try:
    import jsonschema
    jsonschema.validate(m, json.load(open("/root/.vp/MANIFEST.schema.json")))
    print("MANIFEST.json valid;", len(checks), "checks,", len(na), "not_applicable")
except ImportError:
    print("jsonschema not importable here; written without validation")
