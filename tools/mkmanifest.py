#!/usr/bin/env python3
"""Regenerates /verif/MANIFEST.json from the table below and validates it against the schema."""
import json, os, sys
HERE = os.path.dirname(os.path.dirname(os.path.abspath(__file__)))

# id: (built, category, technique, text, note, design_ref)
C = {
 "C01": (True, "exploration", "reference-model monitor (ordered map) over exhaustive small scopes, boundary-directed and random builds; decoder-derived structural coverage",
   "Every build (all subsets of {a,b}^<=3 x value styles x 6 cache geometries via hook H1, fan-out/width palettes, all 256 bytes, 70 kB keys, corpora, random and bulk maps) is reopened and streamed through every enumeration API and compared element-wise with the inserted map. Held-on-what-was-run, with exhaustive coverage of the small scopes in which the builder's case distinctions live.",
   "Trusts the harness' BTreeMap-ordered model and generators; structural coverage classes come from the independent decoder; not a proof for all inputs.", "DESIGN.md#c01"),
 "C09": (True, "exploration", "independent on-disk format decoder + bit-wise reference CRC as runtime oracle over all built artifacts",
   "Every artifact of the shared case pool is parsed by a decoder written from the format description only (never the crate's reader): header, footer, node layouts, backward pointers, exact tiling, root last, checksum, decoded map == inserted map.",
   "The 63-entry common-input table is pinned format data; compactness policy is recorded, not judged.", "DESIGN.md#c09"),
}
TODO = ["C02","C03","C04","C05","C06","C07","C08","C10","C11","C12","C13","C14","C15","C16","C17","C18","C19","C20"]

checks = []
for cid, (built, cat, tech, text, note, ref) in sorted(C.items()):
    if not built: continue
    checks.append({
        "property_id": cid,
        "quick_cmd": f"./check {cid} quick",
        "thorough_cmd": f"./check {cid} thorough",
        "evidence_file": f"/verif/evidence/{cid}.json",
        "replay_cmd_template": f"./check {cid} quick --replay {{path}}",
        "engine": "fstmon",
        "level_claimed": {"category": cat, "text": text, "design_ref": ref},
        "level_note": note,
        "technique": tech,
    })
na = [{"property_id": c, "reason": "check not built yet in this session (work in progress; the technique applies)"} for c in TODO if c not in C or not C[c][0]]
m = {
 "version": 1,
 "setup_cmd": "./setup.sh",
 "hooks": {
   "guard": "--cfg burntsushi_fst_verif (rustc cfg flag, passed through RUSTFLAGS)",
   "enable": "RUSTFLAGS='--cfg burntsushi_fst_verif' cargo build --offline (the harness depends on /repo by path, so every check rebuilds the library from the working tree; fst-bin is rebuilt the same way for C19)",
   "baseline_off_cmd": "cd /repo && cargo test --workspace --no-fail-fast --offline",
   "source_commits": ["551498d", "09028d1", "4662e10"],
   "add_only": True,
 },
 "engines": [
   {"name": "fstmon", "path": "/verif/harness", "serves_properties": sorted(k for k,v in C.items() if v[0]),
    "kind_free_text": "Rust monitor binary linked against /repo (path dependency, hooks on): reference models, independent format decoder/encoder, event-logging io::Write sinks, counting global allocator, explicit DFAs; plus Miri and ThreadSanitizer runs driven by ./check"},
 ],
 "checks": checks,
 "not_applicable": na,
 "notes": "Verdicts are three-valued: exit 0 held on everything explored, exit 1 with a VIOLATION line, exit 2 INCONCLUSIVE (build failure, watchdog, coverage floor missed) which never prints a VIOLATION line. VERIF_SEED selects the random streams. Known findings / fixed defects: /verif/known-findings.txt.",
}
if not na: del m["not_applicable"]
json.dump(m, open(os.path.join(HERE, "MANIFEST.json"), "w"), indent=1)
try:
    import jsonschema
    jsonschema.validate(m, json.load(open("/root/.vp/MANIFEST.schema.json")))
    print("MANIFEST.json valid;", len(checks), "checks,", len(na), "not_applicable")
except ImportError:
    print("jsonschema not importable here; written without validation")
