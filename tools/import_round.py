#!/usr/bin/env python3
"""tools/import_round.py <round> <spec.json>: copy confirmed sub-agent changes from /tmp/mut-out<round>/<Cxx>/ into
/verif/seeded/<Cxx>-R<round><V>/ (patch.diff, demo.rs|demo.sh, author-notes.md, meta.json).
spec.json: { "C01-A": {"change":..., "needs":..., "caught_by":[["C01","sig"],...], "note":...}, ... }"""
import json, os, shutil, sys
rnd=sys.argv[1]; spec=json.load(open(sys.argv[2]))
HERE=os.path.dirname(os.path.dirname(os.path.abspath(__file__)))
for key,m in spec.items():
    prop,v=key.split('-')
    src=f"/tmp/mut-out{rnd}/{prop}"
    sid=f"{prop}-R{rnd}{v}"
    dst=f"{HERE}/seeded/{sid}"; os.makedirs(dst,exist_ok=True)
    shutil.copy(f"{src}/{v}.patch", f"{dst}/patch.diff")
    files={"patch":"patch.diff"}
    if os.path.exists(f"{src}/{v}_demo.rs"): shutil.copy(f"{src}/{v}_demo.rs", f"{dst}/demo.rs"); files["demonstration"]="demo.rs"
    if os.path.exists(f"{src}/{v}_demo.sh"): shutil.copy(f"{src}/{v}_demo.sh", f"{dst}/demo.sh"); files["demonstration"]="demo.sh"
    if os.path.exists(f"{src}/notes.md"): shutil.copy(f"{src}/notes.md", f"{dst}/author-notes.md"); files["author_notes"]="author-notes.md"
    meta={"id":sid,"property":prop,"change":m["change"],"needs_to_manifest":m["needs"],"files":files,
      "origin":f"round {rnd}: written by a fresh sub-agent that saw only the JSON record of this one property, generic instructions (realistic change, needs something specific to manifest, suite must pass) and its own scratch worktree of /repo (nothing from /verif, no list of earlier changes)",
      "confirmed":{"how":"tools/confirm_mut.sh in the scratch worktree: patch applies; unedited suite passes with it (149 tests incl. doc-tests ok); compiles with --cfg burntsushi_fst_verif; demonstration fails with the change and passes without","result":"CONFIRMED"},
      "checks_run":"tools/evalalt.sh <name> <patch> quick <checks> (isolated worktree + copy of the machinery; /repo untouched)",
      "caught_by":[{"check":c,"signature":s} for c,s in m["caught_by"]],
      "note":m.get("note","")}
    if m.get("needs_tier"): meta["needs_tier"]=m["needs_tier"]
    json.dump(meta,open(f"{dst}/meta.json","w"),indent=1,ensure_ascii=False)
    print("imported",sid)
