#!/usr/bin/env bash
# tools/roundeval.sh <round> <Cxx> [extra checks...]  -- confirm a sub-agent's changes A and B (tools/confirm_mut.sh) and
# evaluate each confirmed one against the check of its own property (+ extra checks) in an isolated copy
set -u
R="$1"; ID="$2"; shift; shift
OUT="/tmp/mut-out$R/$ID"
for V in A B C; do
  [ -s "$OUT/$V.patch" ] || continue
  c=$(ROUND="$R" "$(dirname "$0")/confirm_mut.sh" "$ID" "$V" 2>&1 | tail -1); echo "$c"
  case "$c" in *CONFIRMED*) ;; *) continue;; esac
  case "$c" in *"NOT CONFIRMED"*) continue;; esac
  "$(dirname "$0")/evalalt.sh" "r$R-$ID-$V" "$OUT/$V.patch" quick "$ID" "$@"
done
