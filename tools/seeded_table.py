#!/usr/bin/env python3
"""Regenerates section 7 of DESIGN.md (between the SEEDED markers) from /verif/seeded/*/meta.json"""
import json, glob, os, re
HERE=os.path.dirname(os.path.dirname(os.path.abspath(__file__)))
rows=[]
for f in sorted(glob.glob(f'{HERE}/seeded/*/meta.json')):
    m=json.load(open(f))
    caught='; '.join(f"**{c['check']}** `{c['signature']}`" for c in m['caught_by'])
    note=m.get('note','')
    if m.get('retired'): note=(note+' ' if note else '')+'**'+m['retired']+'**'
    rows.append(f"| {m['id']} | {m['property']} | {m['change']} | {m['needs_to_manifest']} | {caught} | {note} |")
n=len(rows)
missed=[json.load(open(f)) for f in sorted(glob.glob(f'{HERE}/seeded/*/meta.json'))]
nm=sum(1 for m in missed if 'initially missed' in m.get('note',''))
nret=sum(1 for m in missed if m.get('retired'))
nthor=sum(1 for m in missed if m.get('needs_tier')=='thorough')
nopen=sum(1 for m in missed if not m.get('retired') and not m['caught_by'])
text=f"""<!-- SEEDED:BEGIN -->
{n} seeded changes are kept ({nret} of them retired since: the lines they touch were rewritten by later repairs in `/repo`; see the
note column). Every one was written by a fresh sub-agent that saw only the text of one property (rounds 1-3: plus one-line
descriptions of earlier changes, to avoid repeats; rounds 4-8: nothing else) and a scratch worktree of `/repo`, and every one was
confirmed (`tools/confirm_mut.sh`): it applies, the unedited suite passes with it, it compiles with the hooks on, and its demonstration
fails with it and passes without it. `tools/evalmut.sh` applies a patch to `/repo`, runs the named checks (quick tier) and restores the
tree; `tools/evalalt.sh` (rounds 4-8) does the same on an isolated worktree and copy of the machinery. {nopen} change(s) are still MISSED (empty 'caught by' column; kept as open items, see 4j); every other non-retired change is
caught by at least one check - {nthor} only in the thorough tier, all others in the quick tier; {nm} were **missed at first by the
check of their own property** (the note column says what was strengthened; they are now caught). After the last change to the
machinery all non-retired changes were re-run (`tools/seeded_regress_alt.sh`, `tools/seeded_regress_ids.sh`).

| id | prop | change | needs | caught by (check, signature) | note |
|---|---|---|---|---|---|
""" + "\n".join(rows) + "\n<!-- SEEDED:END -->"
p=f'{HERE}/DESIGN.md'; s=open(p).read()
if 'SEEDED_TABLE_PLACEHOLDER' in s:
    s=s.replace('SEEDED_TABLE_PLACEHOLDER', text)
else:
    s=re.sub(r'<!-- SEEDED:BEGIN -->.*<!-- SEEDED:END -->', lambda _: text, s, flags=re.S)
open(p,'w').write(s)
print(n,'rows;',nm,'initially missed')
