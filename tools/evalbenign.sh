#!/usr/bin/env bash
# tools/evalbenign.sh <patch> [tier]  -- apply a behaviour-preserving change to /repo, run EVERY check, restore.
# Any check that is not HELD is printed: it is either a false alarm of the check or a mistake in the "benign" change.
set -u
cd "$(dirname "$0")/.."
P="$1"; TIER="${2:-quick}"
git -C /repo diff --quiet || { echo "refusing: /repo has uncommitted changes"; exit 3; }
git -C /repo apply "$P" || { echo "[$P] PATCH DOES NOT APPLY"; exit 3; }
trap 'git -C /repo checkout -- . >/dev/null 2>&1' EXIT
bad=0
for i in 01 02 03 04 05 06 07 08 09 10 11 12 13 14 15 16 17 18 19 20; do
  out=$(./check C$i "$TIER" 2>&1); code=$?
  if [ $code -ne 0 ]; then bad=$((bad+1)); echo "[$(basename "$(dirname "$P")")/$(basename "$P")] C$i exit=$code :: $(echo "$out" | grep -E "^  signature=|^INCONCLUSIVE" | head -2 | cut -c1-300 | tr '\n' ' ')"; fi
done
echo "[$(basename "$(dirname "$P")")/$(basename "$P")] checks not held: $bad of 20"
