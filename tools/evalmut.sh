#!/usr/bin/env bash
# tools/evalmut.sh <patch-file> <tier> <Cxx> [Cyy ...]
# apply a seeded change to /repo, run the given checks, undo the change; prints one line per check
set -u
cd "$(dirname "$0")/.."
P="$1"; TIER="$2"; shift; shift
git -C /repo diff --quiet || { echo "refusing: /repo has uncommitted changes"; exit 3; }
git -C /repo apply "$P" || { echo "patch does not apply: $P"; exit 3; }
trap 'git -C /repo checkout -- . >/dev/null 2>&1' EXIT
for c in "$@"; do
  s=$(date +%s); out=$(./check "$c" "$TIER" 2>&1); code=$?; e=$(( $(date +%s) - s ))
  echo "[$(basename "$(dirname "$P")")/$(basename "$P")] $c exit=$code ${e}s :: $(echo "$out" | grep -E "^  signature=" | head -1 | cut -c1-260)"
  echo "      $(echo "$out" | tail -1)"
done
