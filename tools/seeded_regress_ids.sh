#!/usr/bin/env bash
# tools/seeded_regress_ids.sh <tier> <id> [id ...]  -- seeded_regress_alt.sh for an explicit list of kept seeded changes
set -u
cd "$(dirname "$0")/.."
TIER="$1"; shift
for id in "$@"; do
  d="seeded/$id"
  if python3 -c "import json,sys; sys.exit(0 if json.load(open('$d/meta.json')).get('retired') else 1)"; then echo "$id: RETIRED"; continue; fi
  checks=$(python3 -c "import json; m=json.load(open('$d/meta.json')); print(' '.join(dict.fromkeys([c['check'] for c in m['caught_by']])))")
  out=$(tools/evalalt.sh "sr-$id" "$PWD/$d/patch.diff" "$TIER" $checks 2>&1)
  echo "$out" | cut -c1-200
  if echo "$out" | grep -q "exit=1"; then echo "$id: caught"; else echo "$id: NOT CAUGHT"; fi
done
echo "IDS DONE"
