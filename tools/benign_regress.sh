#!/usr/bin/env bash
# tools/benign_regress.sh [tier] [id ...]  -- for every behaviour-preserving change in /verif/benign/<id>/patch.diff: evaluate ALL checks
# against it in an isolated worktree + copy of the machinery (tools/evalalt.sh; /repo is never touched). Every line that is not
# exit=0 is a false alarm of the machinery (or a mistake in the "benign" change - see its author-notes.md). Exit 1 if any.
set -u
cd "$(dirname "$0")/.."
TIER="${1:-quick}"; shift || true
IDS="$*"; [ -z "$IDS" ] && IDS=$(for d in benign/*/; do [ -e "$d/RETIRED" ] || basename "$d"; done)
bad=0
for id in $IDS; do
  out=$(tools/evalalt.sh "benign-$id" "$PWD/benign/$id/patch.diff" "$TIER" all 2>&1)
  echo "$out" | grep -v "exit=0" && bad=1
  echo "$id: $(echo "$out" | grep -c 'exit=0') of 20 checks held"
done
exit $bad
