#!/usr/bin/env bash
# tools/evalalt.sh <name> <patch> <tier> <Cxx|all> [Cyy ...]
# evaluate a change in an isolated copy (tools/altverif.sh), print one line per check, clean up. Never touches /repo.
set -u
NAME="$1"; P="$2"; TIER="$3"; shift; shift; shift
V=$("$(dirname "$0")/altverif.sh" "$NAME" "$P" | tail -1) || exit 3
[ -d "$V" ] || { echo "[$NAME] setup failed: $V"; "$(dirname "$0")/altverif.sh" --rm "$NAME"; exit 3; }
trap '"$(dirname "$0")/altverif.sh" --rm "$NAME"' EXIT
[ "$1" = all ] && set -- C01 C02 C03 C04 C05 C06 C07 C08 C09 C10 C11 C12 C13 C14 C15 C16 C17 C18 C19 C20
cd "$V"
for c in "$@"; do
  s=$(date +%s); out=$(./check "$c" "$TIER" 2>&1); code=$?; e=$(( $(date +%s) - s ))
  echo "[$NAME] $c exit=$code ${e}s :: $(echo "$out" | grep -E "^  signature=|^INCONCLUSIVE" | head -1 | cut -c1-300)"
done
